#!/bin/bash
# usage: tools/seeded_eval.sh <worktree-with-change-applied> <ID> [tier] — exploration only: imports kaira from the worktree (KAIRA_TREE), /repo untouched.
wt=$1; id=$2; tier=${3:-quick}
cd /verif && KAIRA_TREE=$wt ./check $id --tier $tier --no-evidence > /tmp/seedwork/eval_$(basename $wt)_$tier.log 2>&1; rc=$?
echo "$(basename $wt) $id tier=$tier check_rc=$rc violations=$(grep -c '^VIOLATION' /tmp/seedwork/eval_$(basename $wt)_$tier.log)"
grep "^  clause" /tmp/seedwork/eval_$(basename $wt)_$tier.log | head -4 | cut -c1-230
grep "HARNESS" /tmp/seedwork/eval_$(basename $wt)_$tier.log | head -3 | cut -c1-200
