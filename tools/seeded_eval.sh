#!/bin/bash
# usage: tools/seeded_eval.sh <dir-with-patch.diff> <ID> [tier]
# Exploration only: a fresh scratch worktree of /repo's HEAD gets the patch, kaira is imported from it (KAIRA_TREE); /repo is untouched.
src=$1; id=$2; tier=${3:-quick}
tag=$(basename $src)
wt=/tmp/evalwt_${tag}_$$
git -C /repo worktree add -q --detach $wt HEAD || exit 2
if ! git -C $wt apply $src/patch.diff; then echo "$tag: patch does not apply to current HEAD"; git -C /repo worktree remove --force $wt; exit 2; fi
cd /verif && KAIRA_TREE=$wt ./check $id --tier $tier --no-evidence > /tmp/seedwork/eval_${tag}_$tier.log 2>&1; rc=$?
git -C /repo worktree remove --force $wt
echo "$tag $id tier=$tier check_rc=$rc violations=$(grep -c '^VIOLATION' /tmp/seedwork/eval_${tag}_$tier.log)"
grep "^  clause" /tmp/seedwork/eval_${tag}_$tier.log | head -4 | cut -c1-230
grep "HARNESS" /tmp/seedwork/eval_${tag}_$tier.log | head -3 | cut -c1-200
