#!/bin/bash
# usage: tools/seeds.sh "2 3 4" [tier]  — runs every check at the given seeds without touching evidence; prints exit codes
cd "$(dirname "$0")/.."
tier=${2:-quick}
for seed in $1; do
  for i in $(seq -w 1 20); do
    id=C$i
    out=$(VERIF_SEED=$seed ./check $id --tier $tier --no-evidence 2>&1); rc=$?
    echo "seed=$seed $id rc=$rc $(echo "$out" | grep -c '^VIOLATION') violations; $(echo "$out" | grep SUMMARY | sed 's/.*evaluations/evaluations/')"
    if [ $rc -ne 0 ]; then echo "$out" | grep -v "^KNOWN" | head -12; fi
  done
done
