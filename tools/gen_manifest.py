#!/venv/bin/python
"""Regenerates /verif/MANIFEST.json from the table below and validates it (and any evidence files)
against the schemas in /root/.vp when python3-vt (jsonschema) is available."""
import json
import os
import subprocess
import sys

ROOT = os.path.dirname(os.path.dirname(os.path.abspath(__file__)))

CHECKS = {
    "C18": dict(
        technique="exhaustive enumeration of small domains + Hypothesis-generated operands against an independent int-bitmask GF(2)[X]/GF(2^m) reference",
        text="Every clause of C18 (Euclidean division, gcd/Bezout, lcm, ring laws; field axioms, primitive order, inverse, power, trace, conjugates, minimal polynomial) is evaluated on all polynomial pairs of degree < 8, all field pairs for m <= 7 (thorough: <= 10), all triples for m <= 4 (thorough: 5), every element for m <= 8 and on Hypothesis-generated operands up to degree 200 / m = 16, and compared with a reference that shares no code with kaira. Exploration: exhaustive on the stated finite grids, sampling above them.",
        note="Trusted base: kverif/ref/poly.py (self-checked in setup_cmd against closed forms); elements compared through .value; minimal-polynomial search for m >= 13 is sampled at a few elements because the library's search costs 2^deg evaluations per element.",
        design="4/C18"),
}

NOT_YET = {}

ALL = [f"C{i:02d}" for i in range(1, 21)]


def main():
    checks = []
    for pid in ALL:
        if pid not in CHECKS:
            continue
        c = CHECKS[pid]
        checks.append({
            "property_id": pid,
            "quick_cmd": f"./check {pid} --tier quick",
            "thorough_cmd": f"./check {pid} --tier thorough",
            "evidence_file": f"/verif/evidence/{pid}.json",
            "replay_cmd_template": f"./check {pid} --replay {{path}}",
            "engine": "kverif",
            "level_claimed": {"category": "exploration", "text": c["text"], "design_ref": c.get("design", "4")},
            "level_note": c["note"],
            "technique": c["technique"],
        })
    na = [{"property_id": p, "reason": NOT_YET.get(p, "check not built yet in this session; will be claimed once its generated-input check exists")}
          for p in ALL if p not in CHECKS]
    man = {
        "version": 1,
        "setup_cmd": "./setup.sh",
        "hooks": {
            "guard": "KAIRA_VERIF",
            "enable": "no source hooks are needed: checks import /repo's working tree through the editable install in /venv; ./check exports KAIRA_VERIF=1",
            "baseline_off_cmd": "cd /repo && /venv/bin/python -m pytest -ra -q -p no:cacheprovider --timeout=900 --continue-on-collection-errors",
            "source_commits": [],
            "add_only": True,
        },
        "engines": [{"name": "kverif", "path": "/verif/kverif", "serves_properties": [c["property_id"] for c in checks],
                     "kind_free_text": "property-based testing: Hypothesis strategies/stateful machines, exhaustive enumeration of finite grids sharded over 16 processes, seeded statistical tests, atheris fuzz targets; independent reference models as oracles"}],
        "checks": checks,
        "not_applicable": na,
        "notes": "All checks: ./check <ID> --tier quick|thorough [--replay FILE]; exit 0 held / 1 VIOLATION / 2 harness error. Known findings: /verif/known_findings.json.",
    }
    if not na:
        del man["not_applicable"]
    path = os.path.join(ROOT, "MANIFEST.json")
    with open(path, "w") as f:
        json.dump(man, f, indent=1)
    print("wrote", path, "checks:", len(checks), "not_applicable:", len(na))
    validate()


def validate():
    code = r'''
import json, sys, glob, jsonschema
m = json.load(open("/verif/MANIFEST.json"))
jsonschema.validate(m, json.load(open("/root/.vp/MANIFEST.schema.json")))
es = json.load(open("/root/.vp/EVIDENCE.schema.json"))
bad = 0
for p in sorted(glob.glob("/verif/evidence/*.json")):
    try:
        jsonschema.validate(json.load(open(p)), es)
    except Exception as e:
        bad += 1; print("INVALID", p, str(e)[:300])
print("manifest valid; evidence files checked:", len(glob.glob("/verif/evidence/*.json")), "invalid:", bad)
sys.exit(1 if bad else 0)
'''
    try:
        r = subprocess.run(["python3-vt", "-c", code])
        if r.returncode:
            sys.exit(1)
    except FileNotFoundError:
        print("python3-vt not found; schema validation skipped")


if __name__ == "__main__":
    main()
