#!/venv/bin/python
"""Regenerates /verif/MANIFEST.json from the table below and validates it (and any evidence files)
against the schemas in /root/.vp when python3-vt (jsonschema) is available."""
import json
import os
import subprocess
import sys

ROOT = os.path.dirname(os.path.dirname(os.path.abspath(__file__)))

CHECKS = {
    "C01": dict(
        technique="exhaustive message enumeration per code cell + Hypothesis-generated matrices (constructed full-rank G, systematic P, sparse/rank-deficient H) against a bit-packed GF(2) reference (rank, null space, membership)",
        text="For every catalogue cell (11 families x parameters x left/right/subset/permuted information sets) and for Hypothesis-generated generator / parity / LDPC matrices the check compares encoder(m) with m.G for all 2^k messages (k<=12), rank(G)=k, rank(H)=n-k, G.H^T=0, null(H)=rowspace(G), and through the API that every codeword has a zero syndrome and every single-bit and 64 multi-bit non-codeword perturbations a non-zero one. Exploration: exhaustive in the messages of each small cell, sampled in the space of matrices.",
        note="Trusted base: kverif/ref/gf2.py (self-checked on Hamming/Golay weight enumerators in setup). Matrices are read from the generator_matrix/check_matrix buffers. Size bound: n<=64, quick mu<=4 / thorough mu<=6.",
        design="4/C01"),
    "C02": dict(
        technique="exhaustive (codeword x error pattern of weight<=t) enumeration where small, seeded sampling above, in three batch layouts; nearest-codeword validity predicate over all 2^n words against a brute-force reference codebook",
        text="Every (code, decoder) pair allowed by the type signatures (syndrome table, brute-force ML, Berlekamp-Massey on BCH, Reed-Muller majority, Hamming / Reed-Muller inverse) is run on all codewords x all error patterns of weight <= t_advertised when that product fits the tier budget and on seeded samples otherwise, as one batch, as 1-D words and in small batches at varying row positions; return_errors consistency; complete decoders are checked on all 2^n received words (n<=10, thorough 12) with the tie-tolerant predicate wt(r+enc(dec(r))) = min_c wt(r+c).",
        note="Reference codebook = GF(2) span of encoder(I_k); t from the advertised distance/capability (d_true where nothing is advertised). Decoder loops are slow pure Python: quick thins the cyclic catalogue and stops at BCH mu<=4 (thorough mu<=6).",
        design="4/C02"),
    "C03": dict(
        technique="exact minimum distance by codeword enumeration and MacWilliams transform of the dual (cross-checked) per catalogue cell; cyclic-shift closure and generator-polynomial divisibility with an independent GF(2)[X] reference",
        text="For every structured code cell the advertised n, k, rate, minimum distance / design distance / capability are compared with the true parameters of the row space of encoder(I_k): d_true computed exactly (enumeration k<=22/26, MacWilliams n-k<=22, both where both are small), equality where the value is documented as exact, >= otherwise; cyclic closure of every row under all n shifts, rows multiples of g in natural or reversed order, g | X^n+1, g.h = X^n+1, BCH generator degree vs lcm of minimal polynomials; sphere-packing equality for Hamming/Golay.",
        note="Trusted base: kverif/ref/gf2.py and ref/poly.py. Cells with k>26 and n-k>22 (some BCH(63,k)) have d_true undecided and are counted as such.",
        design="4/C03"),
    "C04": dict(
        technique="round-trip oracle (inverse_encode / extract_message / project_word after encode) over all messages per cell and Hypothesis-drawn layouts; rejection oracle for non-multiple lengths",
        text="For every catalogue cell and Hypothesis-generated matrix the three inverses are applied to encode(m) for all 2^k messages (k<=12) and for seeded messages in the layouts (k,), (B,k), (B1,B2,k), (B,b.k), (B1,B2,b.k); output must equal m, the syndrome must be zero and shapes must scale by exactly k/n resp. n/k; inputs whose last dimension is not a multiple of the block size must raise.",
        note="Hamming and Reed-Muller override inverse_encode with a single-block contract: an exception there on multi-block layouts is accepted (counted), a wrong value never is.",
        design="4/C04"),
    "C05": dict(
        technique="exhaustive enumeration of symbols, ordered symbol pairs (triples for schemes with memory) + Hypothesis-generated bit sequences/layouts; round-trip oracle with the scheme's documented start-up convention",
        text="For every scheme/order/labelling/normalisation option, built directly and through ModulationRegistry.create, the check modulates every b-bit group, every ordered pair of symbols (and every ordered triple for differential/offset/alternating schemes), and Hypothesis-generated sequences of 1..64 symbols in 1-D and batched layouts, in eval mode after a state reset, and compares hard demodulation with the input bits and the symbol count with bits/b.",
        note="Start-up conventions as stated in the property (differential reference symbol dropped, OQPSK Q stream delayed by one symbol). Documented index-input overloads (pi/4-QPSK 1-D <=4 values, single-element PSK/DPSK inputs) are respected.",
        design="4/C05"),
    "C06": dict(
        technique="dense grid / boundary / far-field received points against a brute-force nearest-point and max-log LLR reference (tie-tolerant validity predicate; one positive constant per demodulator)",
        text="For every scheme option the hard decision on each received point must be the label of a constellation point within d_min+1e-4 of it, and every soft output must equal c.(D1-D0)/noise_var with one positive constant c per demodulator (estimated, not prescribed), have the sign of D1-D0, be independent of noise_var after multiplication by it over six decades, and a per-symbol noise-variance tensor must reproduce the per-symbol scalar results. Differential schemes are probed on their normalised decision variable, pi/4-QPSK at even and odd positions.",
        note="Reference tables are the published (constellation, bit_patterns), tied to the mapper by C14.c. float32 tolerances: 1e-4 absolute on distances, 2e-3 relative on LLR ratios.",
        design="4/C06"),
    "C07": dict(
        technique="deterministic same-seed metamorphic relations (noise(P2)=sqrt(P2/P1).noise(P1), noise(SNR)=noise(Ps/10^(snr/10)), input scaling) on every configuration + seeded statistical tests of the unit-noise law with a stated false-alarm bound; dense-grid conversion oracles",
        text="AWGN, Laplacian, nonlinear-with-noise (identity and cubic) and the noise stage of flat fading are replayed under one RNG seed for noise powers 1e-3..250 and SNRs -20..40 dB on real and complex inputs of power 1e-3..1e3 and 1-D/2-D/4-D shapes: the added noise must be sqrt(P) times the unit noise of that seed with P the configured power resp. signal_power/10^(snr/10); on 4e6 (thorough 3.2e7) samples the noise mean is 0, mean |n|^2 equals the configured power (summed over re+im, split evenly), the Laplacian kurtosis is 6 and calculate_snr / SignalToNoiseRatio measure the configured SNR; dB/linear/noise-power conversions on 2001-point grids incl. tensors; supplied noise is added verbatim.",
        note="z = 7.5 sigma tolerances from the moments of the specified law (per-run false-alarm bound < 1.3e-10). float32 casts: 2e-4..3e-4 relative tolerance on deterministic relations plus eps32*max|signal| for the rounding of s+n. The SNR metric's documented +eps is included.",
        design="4/C07"),
    "C08": dict(
        technique="Hypothesis-generated (constraint, target, dtype, shape, signal family, scale, zero items) cases judged per batch item against float64 power / PAPR / amplitude oracles; idempotence and rescaling metamorphic relations; composite-equals-sequential differential",
        text="For Total/Average/PerAntenna power constraints every item must have power <= target (non-zero input), within 0.1% of it (input power >= 1e-4), be the input times one positive real factor, and the constraint must be idempotent and invariant to input rescaling; PeakAmplitude bounds every sample and leaves inner samples untouched; PAPR output <= limit on non-sparse items; CompositeConstraint / combine_constraints / apply_constraint_chain equal sequential application bit for bit; create_ofdm_constraints / create_mimo_constraints satisfy all configured upper limits simultaneously on feasible configurations.",
        note="Batch = dim 0 when >1 rows (documented); float32 tolerances 1e-3 on power, 1e-4 on ratios; PAPR demanded on the non-sparse family stated in the property.",
        design="4/C08"),
    "C09": dict(
        technique="enumeration of (code, decoder) x (modulator, demodulator) pipelines built with ChannelCodeModel; harness-placed adversarial flip patterns and bounded symbol displacements through LambdaChannel; round-trip oracle message -> pipeline -> message",
        text="19 (thorough 24) code/decoder sets x every memoryless and alternating modulation option are assembled through the library's channel-code pipeline (hard decoders behind hard demodulation, soft decoders behind soft demodulation with noise_var forwarded as a pipeline keyword), framed as m blocks per row so that code and symbol framing both divide, and run over PerfectChannel, a channel that flips <= t bits per block (every single position for n<=31 plus seeded multi-bit patterns) and a channel that displaces each symbol by 0.49 d_min in seeded directions; messages exhaustive for k.m<=6, seeded otherwise; the output must equal the message.",
        note="Differential/offset schemes are not paired (their demodulators return fewer bits than were modulated: block framing does not match). The flip clause uses t from d_true and excludes the Reed-Solomon-style family (recorded finding KF-C03-RS-DISTANCE); polar encoders take one block per row.",
        design="4/C09"),
    "C10": dict(
        technique="Hypothesis-generated parity-check graphs (sparse, cycle-free by union-find) and real LLR vectors against float64 references: codebook marginalisation, brute-force soft-ML, textbook flooding min-sum; exhaustive codewords x magnitudes for the clean clause",
        text="Clean LLRs (|LLR| 0.5..50) of every codeword (k<=8) or seeded codewords are decoded by BP (iterations 1..20, exact/Taylor), min-sum (scaling/offset/normalized), Wagner and soft Reed-Muller on a fixed LDPC matrix, generated sparse H and catalogue codes, output shape (...,k); Wagner's output is compared with the maximum correlation over all even-weight words on generated tie-free real vectors; BP soft outputs equal brute-force bitwise posteriors on generated cycle-free graphs (inside the decoder's clipping range); min-sum soft outputs equal a textbook flooding min-sum and are homogeneous under input rescaling (offset 0, inside the +-500 clamp); a single weak wrong-sign LLR is corrected.",
        note="Trusted base: kverif/ref/soft.py (self-checked). BP exactness demanded only when the reference keeps check messages < 7.0; min-sum offset compared only where scale*min > offset; generated H have no all-zero column and k >= 1.",
        design="4/C10"),
    "C11": dict(
        technique="enumeration of (N,k,frozen,interleaving) cells and all 2^k messages per cell; Hypothesis-generated user masks and real LLR vectors; oracles: pinned 5G sequence, Kronecker-power transform, float64 textbook SC recursion",
        text="For every N in 2..32 with every k, sampled (N,k) up to 1024, both frozen values and interleaving options, the information set is compared with an independent parse of the pinned 5G reliability sequence, every codeword with u.F^(x m) (bit-reversed when polar_i) for all 2^k messages (k<=10) in batches of 1..8, the generator matrix with the Kronecker power; SC (sum-product, min-sum) and BP-polar return the message from clean LLRs of magnitude 0.5..100; for generated real LLR vectors the SC output equals a float64 textbook SC; user-supplied masks are honoured; BP-polar rejects polar_i=True.",
        note="The 5G sequence is pinned in /verif/data/polar_5g_q.json (sha256 of the repository CSV recorded; structural invariants re-checked each run). Sum-product comparison restricted to reference magnitudes <=12 and margins >=1e-2 (float32 saturation), min-sum to margins >=1e-4; skipped cases are counted.",
        design="4/C11"),
    "C12": dict(
        technique="exact support/direction invariants on every sample of enumerated (channel, p, alphabet, dtype, shape) cells + seeded statistical tests (rates on 0s and 1s, lag and cross-row correlations) with a stated false-alarm bound",
        text="BSC, Z and erasure channels are run for p in {0,1e-3,...,0.999,1}, alphabets {0,1} and {-1,+1}, float32/float64/int64/bool inputs and 1-D/2-D/4-D shapes: outputs stay in alphabet + erasure symbol, Z never turns 0 into 1, unerased symbols are unchanged, p=0 is the identity and p=1 the deterministic extreme, the input tensor is bit-identical afterwards; on 4e6 (thorough 3.2e7) symbols the event rate equals p separately on the 0s and the 1s, lag-1..3 and cross-row correlations vanish, and two calls give different realisations.",
        note="z = 7.5 sigma (per-run false-alarm bound < 1e-10). With the default erasure symbol -1 on bipolar inputs only 'changed positions carry the erasure symbol' is decidable.",
        design="4/C12"),
    "C13": dict(
        technique="Hypothesis-generated (L, T, layout, dtype) cases with exact structural oracles (y=h.x+n with supplied csi/noise, block constancy through g=y/x at zero noise) + seeded statistical tests of the gain law and same-seed noise-calibration replays",
        text="Rayleigh, Rician (K 0..100) and log-normal channels: with supplied channel state and noise the output is exactly h.x+n (csi full / per-item / scalar), shapes are preserved for 1-D/2-D/4-D, gains are constant inside each block of T samples with ceil(L/T) distinct draws per item (T dividing, not dividing and exceeding L); on 1e6 (thorough 8e6) blocks E|h|^2=1, E h = sqrt(K/(K+1)), scattered power 1/(K+1), adjacent blocks and batch items uncorrelated; under one seed the noise for an SNR equals sqrt(mean|h.x|^2/snr) times the unit noise, i.e. it is calibrated on the faded signal.",
        note="z = 7.5 sigma; block constancy tolerance 1e-5 relative; csi/noise shapes follow the flattened (B, L) layout the channel documents.",
        design="4/C13"),
    "C14": dict(
        technique="exhaustive pairwise examination of every published and mapper-induced constellation table; Gray utilities exhaustively below 2^16, Hypothesis-generated up to 2^60, plus an atheris (libFuzzer) campaign with the oracle inside the target",
        text="Every scheme's published table and the table induced by modulating every bit group are checked for 2^b distinct points, bijective labels, unit mean energy where requested/by definition, agreement with each other, and the Gray property on all nearest-neighbour pairs; binary_to_gray/gray_to_binary and their array forms are compared with n^(n>>1), inverted both ways and checked for unit Hamming distance of consecutive integers on all n<2^16 and generated n<2^60; a coverage-guided campaign looks for special-cased constants.",
        note="Nearest neighbours = pairs within 1e-4 relative of the minimum distance. atheris is installed from the offline wheelhouse into /verif/.deps by setup.sh; if unavailable the campaign is skipped and the evidence says so.",
        design="4/C14"),
    "C15": dict(
        technique="full enumeration of (LLR producer, LLR consumer) pairs over seeded/exhaustive short bit sequences; round-trip oracle bits -> modulate -> soft demodulate -> consumer -> bits",
        text="Every soft demodulator (all schemes/options, noise variances 1e-3..1e3) and synthetic +-mag LLR streams are paired with every LLR consumer (10 thresholder configurations in LLR mode, ensemble, repetition soft-bit decoder, llr_to_bits, sign_to_bin, BP/min-sum/Wagner/SC/polar-BP/soft-RM decoders through a codeword); the consumer must reproduce the transmitted bits. LLRThresholder soft output equals sigmoid(-LLR) and is monotone; llr_to_bits(+x)=0, (-x)=1.",
        note="Data-dependent thresholders are only judged where their threshold provably separates the two clusters (constant-magnitude streams, Otsu at bin resolution, Dynamic for |LLR|>=0.25); skipped cases are counted in the evidence. Decoders get LLRs clipped to +-30 with |LLR|>=0.05.",
        design="4/C15"),
    "C16": dict(
        technique="Hypothesis RuleBasedStateMachine (update/compute/reset/forward, invariant after every step) + exhaustive enumeration of all operation sequences up to length 4 (thorough 6) against exact integer reference counters; generated and adversarial one-shot tensor pairs; generated partitions/orderings",
        text="BitErrorRate, BlockErrorRate and its SER/FER aliases and the StandardMetrics helpers are compared with exact integer counts on all-equal, all-different, every single-difference position and generated tensor pairs (1-D..3-D, real and complex, divisor block sizes; non-divisors must raise), with symmetry, zero-iff-equal and BER<=BLER<=min(1,B.BER); streaming state is checked after every step of every op sequence up to length 4/6 over a pool of unequal batches, of Hypothesis stateful histories up to 50/200 steps, and for generated cuts and orderings of one data set.",
        note="Rates compared as float32(count/total) within one float32 ulp. BlockErrorRate takes dim 0 as batch; 1-D inputs with block_size>1 raise by its documented divisibility rule and count as rejections.",
        design="4/C16"),
    "C17": dict(
        technique="recording stages + Hypothesis stateful add/remove/run histories against a list model; exhaustive enumeration of all feasible thread completion permutations forced by harness-owned gates; exhaustive condition tables for branching; enumerated encoder-instance patterns for multiple access",
        text="Sequential/Configurable/DeepJSCC/channel-code pipelines must call each recording stage once, in declared order, with forwarded args/kwargs, under histories of add_step/remove_step/run (out-of-range remove raises); ParallelModel is run with every feasible completion permutation of 1..4 (thorough 5) branches for worker counts 1..n and default and must return each result under its branch name and hand the aggregator the declared order; BranchingModel runs exactly the first true branch else default else raises; FeedbackChannelModel performs exactly max_iterations rounds in the documented order; MultipleAccessChannelModel encodes user i with its own encoder, sums, and calls constraint and channel once.",
        note="The harness controls completion order only (Events + 10 ms settle); preemption inside one stage is out of reach. Channel-code order is the class's declared step list (encoder, modulator, constraint, channel, demodulator, decoder).",
        design="4/C17"),
    "C19": dict(
        technique="torch.autograd.gradcheck / 8-direction central finite differences on seeded float64 inputs under a frozen RNG for every channel and constraint stage; end-to-end shape, range, bandwidth-ratio and per-parameter gradient-reach oracles on the bundled architectures",
        text="AWGN, Laplacian, phase-noise, Rayleigh/Rician fading, nonlinear (direct/cartesian/polar, with noise) channels and Total/Average/PerAntenna/PAPR/PeakAmplitude constraints are differentiated at seeded real and complex float64 inputs of three scales with the RNG re-seeded before every call: outputs require grad, backward runs, gradients are finite and match finite differences; Bourtsoulatze2019, Tung2022 Q/Q2, Kurka2020, Yilmaz2024 WZ (small/full/conditional) and Yilmaz2023 NOMA pipelines are run for image sizes {16,32,48,64} admitted by their stride and batches {1,2,5}: latent shape and bandwidth ratio as documented, output shape = input shape, sigmoid decoders in [0,1], every encoder parameter receives a finite, not identically zero gradient through constraint, channel and decoder.",
        note="SNR parameterisations go through a float32 cast and are compared by central differences (eps 1e-2, 5e-3 relative). A parameter is flagged only if its gradient is exactly zero for three independent initialisations and inputs. Reduced widths except Kurka's fixed 256 filters.",
        design="4/C19"),
    "C20": dict(
        technique="metamorphic batch relations (batch == stack of singles, permutation equivariance, layout regrouping agrees-or-raises, repeatability, input immutability) on seeded batches with planted special members + Hypothesis stateful call histories compared with a fresh object",
        text="For 140+ components (catalogue encoders, hard/soft decoders, polar encoder/decoders, every memoryless modulator and hard/soft demodulator, Total/Average/PAPR/PerAntenna constraints) seeded batches of 1..6 pairwise different members, with erroneous rows planted among zero-syndrome rows and an all-zero signal row among non-zero ones, must give f(batch) == stack(f(member)), be equivariant under every permutation (size<=4), give the same values in 1-D, (B1,B2,n) and (B,2n) layouts or raise, repeat identically, leave the input tensor unchanged, and answer interleaved call histories (Hypothesis RuleBasedStateMachine) like a fresh object.",
        note="Float outputs within 1e-5 relative; ML-type decoders are fed tie-free words (codeword + <= t errors). A layout a component does not support may raise (counted), a returned tensor must agree.",
        design="4/C20"),
    "C18": dict(
        technique="exhaustive enumeration of small domains + Hypothesis-generated operands against an independent int-bitmask GF(2)[X]/GF(2^m) reference",
        text="Every clause of C18 (Euclidean division, gcd/Bezout, lcm, ring laws; field axioms, primitive order, inverse, power, trace, conjugates, minimal polynomial) is evaluated on all polynomial pairs of degree < 8, all field pairs for m <= 7 (thorough: <= 10), all triples for m <= 4 (thorough: 5), every element for m <= 8 and on Hypothesis-generated operands up to degree 200 / m = 16, and compared with a reference that shares no code with kaira. Exploration: exhaustive on the stated finite grids, sampling above them.",
        note="Trusted base: kverif/ref/poly.py (self-checked in setup_cmd against closed forms); elements compared through .value; minimal-polynomial search for m >= 13 is sampled at a few elements because the library's search costs 2^deg evaluations per element.",
        design="4/C18"),
}

NOT_YET = {}

ALL = [f"C{i:02d}" for i in range(1, 21)]


def main():
    checks = []
    for pid in ALL:
        if pid not in CHECKS:
            continue
        c = CHECKS[pid]
        checks.append({
            "property_id": pid,
            "quick_cmd": f"./check {pid} --tier quick",
            "thorough_cmd": f"./check {pid} --tier thorough",
            "evidence_file": f"/verif/evidence/{pid}.json",
            "replay_cmd_template": f"./check {pid} --replay {{path}}",
            "engine": "kverif",
            "level_claimed": {"category": "exploration", "text": c["text"], "design_ref": c.get("design", "4")},
            "level_note": c["note"],
            "technique": c["technique"],
        })
    na = [{"property_id": p, "reason": NOT_YET.get(p, "check not built yet in this session; will be claimed once its generated-input check exists")}
          for p in ALL if p not in CHECKS]
    man = {
        "version": 1,
        "setup_cmd": "./setup.sh",
        "hooks": {
            "guard": "KAIRA_VERIF",
            "enable": "no source hooks are needed: checks import /repo's working tree through the editable install in /venv; ./check exports KAIRA_VERIF=1",
            "baseline_off_cmd": "cd /repo && /venv/bin/python -m pytest -ra -q -p no:cacheprovider --timeout=900 --continue-on-collection-errors",
            "source_commits": [],
            "add_only": True,
        },
        "engines": [{"name": "kverif", "path": "/verif/kverif", "serves_properties": [c["property_id"] for c in checks],
                     "kind_free_text": "property-based testing: Hypothesis strategies/stateful machines, exhaustive enumeration of finite grids sharded over 16 processes, seeded statistical tests, atheris fuzz targets; independent reference models as oracles"}],
        "checks": checks,
        "not_applicable": na,
        "notes": "All checks: ./check <ID> --tier quick|thorough [--replay FILE]; exit 0 held / 1 VIOLATION / 2 harness error. Known findings: /verif/known_findings.json.",
    }
    # an explicit (possibly empty) list: all 20 properties are decided with the technique, none is declared out of its reach
    path = os.path.join(ROOT, "MANIFEST.json")
    with open(path, "w") as f:
        json.dump(man, f, indent=1)
    print("wrote", path, "checks:", len(checks), "not_applicable:", len(na))
    validate()


def validate():
    code = r'''
import json, sys, glob, jsonschema
m = json.load(open("/verif/MANIFEST.json"))
jsonschema.validate(m, json.load(open("/root/.vp/MANIFEST.schema.json")))
es = json.load(open("/root/.vp/EVIDENCE.schema.json"))
bad = 0
for p in sorted(glob.glob("/verif/evidence/*.json")):
    try:
        jsonschema.validate(json.load(open(p)), es)
    except Exception as e:
        bad += 1; print("INVALID", p, str(e)[:300])
print("manifest valid; evidence files checked:", len(glob.glob("/verif/evidence/*.json")), "invalid:", bad)
sys.exit(1 if bad else 0)
'''
    try:
        r = subprocess.run(["python3-vt", "-c", code])
        if r.returncode:
            sys.exit(1)
    except FileNotFoundError:
        print("python3-vt not found; schema validation skipped")


if __name__ == "__main__":
    main()
