#!/bin/bash
for t in "$@"; do
  id=${t%_*}
  /verif/tools/seeded_confirm.sh /tmp/wt_$t $id > /tmp/seedwork/confirm_$t.log 2>&1
  echo "$t: $(grep demo_with_change_rc /tmp/seedwork/confirm_$t.log) | $(grep stable_pass /tmp/seedwork/confirm_$t.log)"
done
