#!/bin/bash
cd /verif
for seed in 1 2 3 4 5 6 7 8; do for id in C07 C09 C10 C11 C16 C17 C19 C20; do
  out=$(VERIF_SEED=$seed ./check $id --tier quick --no-evidence 2>&1); rc=$?
  echo "seed=$seed $id rc=$rc $(echo "$out" | grep -c '^VIOLATION') violations; $(echo "$out" | grep SUMMARY | sed 's/.*evaluations/evaluations/')"
  if [ $rc -ne 0 ]; then echo "$out" | grep -v "^KNOWN" | head -12; fi
done; done
