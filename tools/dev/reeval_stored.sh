#!/bin/bash
# usage: reeval_stored.sh <property ids...>  re-evaluates the STORED changes (waves a-i) of these properties and updates their meta.json
for id in "$@"; do for w in a b c d e f g h i j; do
  tag=${id}_$w
  /verif/tools/seeded_eval.sh /verif/seeded/$tag $id quick | head -1
  /venv/bin/python - <<PY
import json, re
tag="$tag"
t=open(f"/tmp/seedwork/eval_{tag}_quick.log").read()
p=f"/verif/seeded/{tag}/meta.json"
m=json.load(open(p))
m["detected_by_check"]={"quick":{"violations":len(re.findall(r"^VIOLATION",t,re.M)),"clauses":sorted(set(re.findall(r"clause=(\S+)",t)))[:12],"exit_code":1 if "VIOLATION" in t else (2 if "HARNESS-ERROR" in t else 0)}}
json.dump(m,open(p,"w"),indent=1)
PY
done; done
