#!/bin/bash
# store every tag whose confirmation log is complete and good
for f in /tmp/seedwork/confirm_C??_?.log; do
  tag=$(basename $f .log); tag=${tag#confirm_}
  if grep -q "demo_with_change_rc=1 demo_without_change_rc=0" $f && grep -q "stable_not_passing=0" $f; then
    /verif/tools/seeded_store.py $tag | cut -c1-150
  else
    grep -q "stable_pass" $f && echo "$tag: NOT GOOD: $(grep -h 'demo_with_change_rc\|stable_pass' $f | tr '\n' ' ')"
  fi
done
