#!/venv/bin/python
import json,glob,collections,sys
pid=sys.argv[1]; keys=sys.argv[2:] or ['family','info','layout']
c=collections.Counter(); ex={}
for p in glob.glob(f'/verif/replays/{pid}/*.json'):
    f=json.load(open(p)); cell=f['cell']
    key=(f['clause'],)+tuple(str(cell.get(k)) for k in keys)
    c[key]+=1; ex.setdefault(key,(str(f['observed'])[:100],str(f['expected'])[:60]))
for k,v in sorted(c.items()): print(k,v,ex[k])
