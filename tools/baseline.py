#!/venv/bin/python
"""Run the repository's pinned suite (guard OFF) and compare with BASELINE.json stable_pass.
usage: tools/baseline.py [-n JOBS] [pytest args...]   exit 0 iff every stable_pass test passed."""
import json, os, subprocess, sys, tempfile, xml.etree.ElementTree as ET
base = json.load(open("/root/.vp/BASELINE.json"))
stable = set(base["stable_pass"])
jobs = "16"
args = sys.argv[1:]
if args[:1] == ["-n"]:
    jobs = args[1]; args = args[2:]
with tempfile.TemporaryDirectory(prefix="kaira_baseline_") as d:
    xml = os.path.join(d, "r.xml")
    env = dict(os.environ); env.pop("KAIRA_VERIF", None)
    cmd = ["/venv/bin/python", "-m", "pytest", "-q", "-p", "no:cacheprovider", "--timeout=900", "--continue-on-collection-errors",
           "-n", jobs, f"--junitxml={xml}"] + args
    p = subprocess.run(cmd, cwd=os.environ.get("KAIRA_REPO", "/repo"), env=env, stdout=subprocess.PIPE, stderr=subprocess.STDOUT, text=True)
    print(p.stdout[-1500:])
    passed = set()
    for tc in ET.parse(xml).getroot().iter("testcase"):
        if not any(c.tag in ("failure", "error", "skipped") for c in tc):
            passed.add(f"{tc.get('classname')}::{tc.get('name')}")
missing = sorted(stable - passed) if not args else sorted(t for t in stable - passed if False)
if missing and not args:
    # tests that flake under xdist load are re-run serially once before being reported
    ids = []
    for t in missing:
        cls, name = t.split("::", 1)
        parts = cls.split(".")
        # find the module file
        for i in range(len(parts), 0, -1):
            f = os.path.join(os.environ.get("KAIRA_REPO", "/repo"), *parts[:i]) + ".py"
            if os.path.exists(f):
                ids.append("::".join([os.path.relpath(f, os.environ.get("KAIRA_REPO", "/repo"))] + parts[i:] + [name])); break
    # up to 4 serial attempts: a few pinned tests draw unseeded random data (test_ssim_kernel_size fails now and then on any tree)
    for attempt in range(4):
        with tempfile.TemporaryDirectory(prefix="kaira_baseline_") as d:
            xml = os.path.join(d, "r.xml")
            subprocess.run(["/venv/bin/python", "-m", "pytest", "-q", "-p", "no:cacheprovider", "--timeout=900", f"--junitxml={xml}"] + ids,
                           cwd=os.environ.get("KAIRA_REPO", "/repo"), env=env, stdout=subprocess.PIPE, stderr=subprocess.STDOUT, text=True)
            for tc in ET.parse(xml).getroot().iter("testcase"):
                if not any(c.tag in ("failure", "error", "skipped") for c in tc):
                    passed.add(f"{tc.get('classname')}::{tc.get('name')}")
        print(f"re-ran serially (attempt {attempt + 1}):", ids)
        missing = sorted(stable - passed)
        if not missing:
            break
print(f"stable_pass={len(stable)} passed_now={len(passed)} stable_not_passing={len(missing)}")
for t in missing[:40]:
    print("  NOT PASSING:", t)
sys.exit(1 if missing else 0)
