#!/venv/bin/python
"""usage: tools/seeded_table.py  -> markdown table of /verif/seeded/*/meta.json (for DESIGN.md section 7 and seeded/README.md)"""
import glob, json, os, re
rows = []
for p in sorted(glob.glob("/verif/seeded/*/meta.json")):
    m = json.load(open(p))
    q = (m.get("detected_by_check") or {}).get("quick") or {}
    files = ", ".join(os.path.basename(f) for f in (m.get("files") or []))
    summ = re.sub(r"\s+", " ", m.get("summary") or "").replace("|", "/")
    if len(summ) > 230:
        summ = summ[:227] + "..."
    cl = ", ".join(c.split(".", 1)[1] if "." in c else c for c in q.get("clauses", [])[:4])
    first = "missed -> strengthened" if m.get("initially_missed") else "caught"
    c = m.get("confirmed_by_me") or {}
    suite = c.get("pinned_suite_with_change") or {}
    conf = f"{c.get('demo_exit_with_change')}/{c.get('demo_exit_without_change')}, {suite.get('passed')}/{suite.get('stable_pass')}"
    rows.append(f"| {m['name']} | {files} | {summ} | {first} | {q.get('violations')} cells: {cl} | {conf} |")
print("| change | file | what it does | first evaluation | quick check now (violating cells: clauses) | demo with/without, pinned suite with change |")
print("|---|---|---|---|---|---|")
print("\n".join(rows))

import sys
if "--write" in sys.argv:
    table = "\n".join(["| change | file | what it does | first evaluation | quick check now (violating cells: clauses) | demo with/without, pinned suite with change |", "|---|---|---|---|---|---|"] + rows)
    missed = []
    for p in sorted(glob.glob("/verif/seeded/*/meta.json")):
        m = json.load(open(p))
        if m.get("initially_missed"):
            missed.append(f"| {m['name']} | {m['initially_missed'].replace('|', '/')} |")
    d = open("/verif/DESIGN.md").read()
    a, b = d.index("<!-- SEEDED-TABLE-BEGIN -->"), d.index("<!-- SEEDED-TABLE-END -->")
    d = d[:a] + "<!-- SEEDED-TABLE-BEGIN -->\n" + table + "\n" + d[b:]
    d = re.sub(r"(\| first missed \| what the check lacked -> what was added \|\n\|---\|---\|\n)(?:\| C.*\n)*(?:<!-- MISSED-TABLE -->\n)?", lambda mo: mo.group(1) + "\n".join(missed) + "\n<!-- MISSED-TABLE -->\n", d)
    open("/verif/DESIGN.md", "w").write(d)
    open("/verif/seeded/README.md", "w").write("# Seeded changes (see DESIGN.md section 7)\n\n" + table + "\n")
    print("DESIGN.md and seeded/README.md updated:", len(rows), "changes,", len(missed), "initial misses")
