#!/bin/bash
# usage: tools/seeded_confirm.sh <worktree> <ID>
# Confirms in the scratch worktree: demo exits 1 with the change and 0 without; the pinned suite passes with the change.
wt=$1; id=$2
cd "$wt" || exit 2
[ -s patch.diff ] || git diff -- kaira > patch.diff
echo "== demo with change"; PYTHONPATH=$wt timeout 900 /venv/bin/python -W ignore demo_$id.py > /tmp/seedwork/demo_with_$id.log 2>&1; rc1=$?; tail -3 /tmp/seedwork/demo_with_$id.log
git apply -R patch.diff
echo "== demo without change"; PYTHONPATH=$wt timeout 900 /venv/bin/python -W ignore demo_$id.py > /tmp/seedwork/demo_without_$id.log 2>&1; rc0=$?; tail -2 /tmp/seedwork/demo_without_$id.log
git apply patch.diff
echo "demo_with_change_rc=$rc1 demo_without_change_rc=$rc0"
echo "== pinned suite with change"
KAIRA_REPO=$wt PYTHONPATH=$wt /verif/tools/baseline.py -n 12 2>&1 | tail -4
