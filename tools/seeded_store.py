#!/venv/bin/python
"""usage: tools/seeded_store.py <tag> [<tag> ...]   e.g. C01_a
Copies a confirmed seeded change from its scratch worktree /tmp/wt_<tag> into /verif/seeded/<tag>/ and writes meta.json
from the agent's meta, my confirmation log (/tmp/seedwork/confirm_<tag>.log) and the evaluation log (/tmp/seedwork/eval_wt_<tag>_<tier>.log)."""
import json, os, re, shutil, sys
# Changes that the property's check did NOT detect when first evaluated, and what was added to the check because of it
# (the evaluation recorded under detected_by_check is the one made after that strengthening).
MISSED = {
    "C09_a": "pipelines were built fresh for every transmission -> C09.link_reused_model: one ChannelCodeModel object used for several transmissions in train and eval mode, odd and even symbol counts",
    "C15_a": "producers were only called with batched symbols -> unbatched 1-D layout for every soft demodulator (the pi/4-QPSK 1-D path is separate code)",
    "C16_a": "the stateful machine read compute() after every step, which kept a stale result cache fresh -> compute() only where the generated history says so and once at the end",
    "C17_a": "ParallelModel was only checked right after construction -> C17 parallel histories: add/remove branches between runs, completion order permuted",
    "C20_a": "decoder batches were few and small -> three times as many full-size batches for decoders, members with 1..t errors at seeded positions, so that different error patterns with equal partial syndromes meet in one call",
    "C02_b": "error patterns stopped at weight 4 -> seeded patterns of every weight up to t (t=5..7 for long BCH codes)",
    "C05_b": "every scheme configuration ran in its own worker process -> cross-instance units: all configurations of a family in ONE process, used interleaved in both orders",
    "C07_b": "one call per channel object -> C07 reuse unit: four calls per object (complex, complex, real, complex), float and 0-dim tensor parameters",
    "C09_b": "every block of a transmission carried errors -> clean blocks mixed among corrupted ones, every single position in exactly one block of a row",
    "C10_b": "the soft Reed-Muller decoder only saw clean LLRs and full-strength sign flips -> codeword LLRs with one weak wrong-sign position and random reliabilities, compared with soft ML, on every RM(r,m) incl. r = m-1",
    "C15_b": "LDPC/BP consumers only used systematic generators -> non-systematic BP and min-sum consumers, soft RM consumer",
    "C17_b": "multiple-access encoders always returned new tensors -> pass-through (aliasing) encoders: the superposition must be the plain sum and user inputs stay untouched",
    "C20_b": "bit-valued inputs were float32 only -> int32/int64/float64 variants of every bit-valued batch, input compared before/after every call (the in-place XOR only aliases int32 inputs)",
    "C02_c": "the Reed-Muller nearest-codeword inverse was exercised for k <= 11 and the quick catalogue stopped at m = 4 -> RM(r,5) in the quick tier and the inverse up to k = 16 (RM(2,5), RM(3,4)) in chunks of 8 words",
    "C05_c": "generated sequences had at most 64 symbols x 4 rows -> long sequences (70001 symbols 1-D, 7 x 5003 and 3 x 1031 batched) for every scheme",
    "C06_c": "noise variances were Python floats or a fresh tensor per call -> C06.f: one 0-dim tensor reused for three calls, same LLRs each time and tensor unchanged; every tensor noise_var compared before/after",
    "C08_c": "composites were built completely before first use -> add_constraint histories: use, extend, use again, also nested in an outer composite, compared with sequential application after every step",
    "C09_c": "the demodulator's noise variance was always a pipeline keyword -> the positional form model(x, noise_var) for every link whose stages accept it (judged from the forward signatures)",
    "C12_c": "a fresh channel object per cell -> C12 reuse histories: one object, calls alternating between {0,1} and {-1,+1}, dtypes and shapes",
    "C15_c": "WeightedThresholder only with a scalar weight -> per-position weight list/tensor, ensemble voting modes, soft-output LLR thresholder",
    "C17_c": "BranchingModel was called once per model -> branching histories: add/remove/default/calls with overlapping input-dependent conditions on one object",
    "C19_c": "PAPR gradient only at the default limit 3.0 -> limits 1.2, 1.5, 2, 6 on more shapes and seeds (reaches the late clipping phase)",
    "C20_c": "only the decoded message of a decoder was compared -> the second output (soft estimate / error pattern) as a component of its own, one non-codeword member per soft batch, one arbitrary word per hard batch",
    "C04_d": "the Reed-Muller inverse was skipped for k > 11 in C04 (cost) -> exercised up to k = 16 (RM(3,4), RM(2,5)) on unit vectors, all-ones, zero and random messages",
    "C08_d": "targets started at 1e-2 -> targets 1e-4 and 1e-3 (an absolute tolerance inside the constraint only shows at small targets with low-power inputs)",
    "C11_d": "each decoder object decoded only clean batches -> C11.c' : the same decoder first decodes an arbitrary noisy batch of the same size, then noise-free LLRs of other messages",
    "C17_d": "the recording feedback stages never produced the same feedback twice -> tensor-valued stages with changing, constant and saturating feedback for 1..5 rounds",
    "C01_e": "generated generator matrices had their pivot columns at the far left (random matrices almost always do) -> pivot_G: full-rank matrices with PRESCRIBED pivot columns anywhere in 0..n-1 (k <= 8, n <= 48), rows mixed; also used by C02 and C04",
    "C02_e": "decoders only saw float32 words -> the same words as int32 and int64 tensors, twice in a row on the same decoder object (equal syndromes meet again)",
    "C03_e": "the quick catalogue stopped at Hamming mu = 4 and RM m = 4 -> all Hamming codes mu <= 6 and RM(r,m) m <= 5 in both tiers (constructions switch branch at larger parameters)",
    "C05_e": "every round trip was preceded by a state reset -> eval-mode streams: one reset, then seven round trips of odd and even lengths on the same objects",
    "C06_e": "pi/4-QPSK was only demodulated right after a reset -> C06.h_stream: in state-carrying (training) mode a sequence presented in pieces 3+5+2+4 gets the decisions and LLRs of the one-call presentation",
    "C07_e": "supplied noise always had the signal's dtype -> complex noise on a real signal, double-precision noise on single-precision signals: output must be x + noise under torch's type promotion",
    "C08_e": "all items of a generated batch had the same scale -> mixed_scales: items of one batch differ by amplitude factors 1e-2..1e4",
    "C09_e": "a pipeline call carried at most a few dozen messages -> large-batch links (701 messages, several thousand symbols in one call) for every scheme up to order 64",
    "C12_e": "p = 0 and p = 1 were checked on a few hundred symbols -> 10^7 symbols per channel and alphabet (4.10^7 thorough), so a probability clamped to 1e-6 cannot pass",
    "C13_e": "a channel's noise parameter was fixed at construction -> parameter-update histories (avg_noise_power / snr_db set on a used object, same-seed noise must scale accordingly) in C13 and C07",
    "C15_e": "the repetition soft-bit decoder was only used with its default thresholder and 'mean' combining -> all combine methods and four custom LLR-mode thresholders",
    "C16_e": "every batch of the history pool had 8 bits per item -> 8/16/24 bits per item, so one metric object sees different numbers of blocks per item; library exceptions inside histories are failures",
    "C17_e": "every add_step used a new stage object -> 'readd': the same stage object at several positions, then remove_step on a later occurrence",
    "C19_e": "gradient batches never contained an all-zero item -> zero-item batches for all power/amplitude/PAPR constraints (gradients must stay finite)",
    "C20_e": "inputs were always contiguous tensors -> the same values as a transposed (B1,B2,n) view and as a strided slice of a wider buffer",
    "C07_f": "the SNR metric was only compared on 1-D signals -> batched 2-D/3-D/4-D inputs whose elements and rows have different powers (one value per batch element)",
    "C08_f": "targets stopped at 1e3, so gains above 60 dB were rare -> targets 1e4 and 1e6; also added: non-contiguous (permuted-view) inputs must be constrained like the contiguous tensor",
    "C09_f": "every code of C09 ran in a process of its own -> cross-instance unit: pairs of different codes of one class and size with all their decoders in one process, both orders",
    "C12_f": "inputs were contiguous tensors -> the exact and the statistical cells also run on permuted (transposed) views",
    "C13_f": "independence across blocks was tested on the complex gains only (uncorrelated even when a real factor is shared) -> Pearson correlation of log|h|^2 across adjacent blocks and items",
    "C15_f": "MinDistanceThresholder only with its default reference points -> symmetric custom reference points listed in other orders",
    "C20_f": "the multi-block layout had two blocks per row -> 2 rows x 67 blocks against the 134 blocks as a plain batch",
    "C07_g": "the nonlinear channel's noise stage was only exercised in its default complex mode -> 'cartesian' and 'polar' modes with an identity nonlinearity as channel kinds of their own (deterministic and statistical units)",
    "C12_g": "random bipolar inputs practically always have a -1 in every row -> one planted all-(+1) row per multi-row input and short rows ((50,2), (40,1)): the format is a property of the whole tensor",
    "C17_g": "add/remove-step histories only ran on SequentialModel and ConfigurableModel -> the same histories on DeepJSCCModel and ChannelCodeModel (which inherit add_step / remove_step)",
    "C05_h": "bit tensors were float32 or int64 -> the same bits as int32, uint8, bool and float64 must modulate to the same symbols",
    "C09_h": "custom information sets were random subsets -> structured ones in the shared catalogue (a contiguous window touching neither end, the first k positions reversed) and two such links in C09",
    "C13_h": "channels were built through their own subclasses -> the generic FlatFadingChannel constructor with the options of the other fading types filled in as well",
    "C14_h": "array forms of the Gray utilities were compared on n < 2^16 only -> lists and int64 tensors of the generated integers up to 2^60 against n XOR (n >> 1) and its inverse",
    "C16_h": "the BER helper was only called with 1-D inputs -> every shape of the one-shot grid",
    "C17_h": "the Wyner-Ziv pipeline (a file of this property) was not exercised -> all 16 combinations of its optional stages and given/generated side information with recording stages",
    "C19_h": "the phase-noise channel was gradient-checked on complex inputs only -> real inputs as well",
    "C20_h": "integer inputs were int32/int64 -> uint8, int8 and int16 too, and syndrome decoders on codes whose redundancy exceeds 8 bits (BCH(15,7), BCH(15,5), Golay)",
    "C03_i": "the quick tier stopped at BCH mu = 4 -> all BCH codes mu <= 6 in C03's quick tier; where exact d is out of reach, words of weight <= 2 are ruled out through the columns of a reference check matrix",
    "C07_i": "finiteness of noise samples was never asked for and rare draws were out of reach of 4M-sample units -> 9 x 2^24 Laplacian samples (36 x 2^24 in the thorough tier) must all be finite",
    "C11_i": "SC-vs-textbook cases with intermediate values above the check-node clip were skipped -> the reference models the documented check-node clip, and long codes (N = 256, 1024) with unordered user masks are added",
    "C12_i": "erasure symbols were finite numbers -> NaN and inf as erasure symbols (a natural choice for 'erased')",
    "C15_i": "polar consumers were (8,4) codes without bit reversal -> interleaved N = 16 / 32, N = 32 SC and BP, soft RM(2,4)",
    "C16_i": "BitErrorRate only with its default threshold -> thresholds 0.0 and 0.25 in the one-shot grid and the histories",
    "C17_i": "pipeline payloads were lists -> tuple-valued payloads (incl. the empty tuple) through 0..4 stages",
    "C19_i": "the per-antenna constraint was gradient-checked with uniform_power on [B,A,T] only -> power_budget on [B,A,T] and [B,A,H,W]",
    "C20_i": "constraint batches had members of similar strength -> a planted weak (1e-3) and strong (1e3) member",
    "C07_j": "add_noise_for_snr was only called with its default dim -> dims None, 0, 1, -1, (0,), (1,), (0,1) on a matrix whose rows and columns have different powers (same-seed relation per slice)",
    "C09_j": "the BCH links only used hard decoders -> BP and min-sum behind soft demodulation on BCH(15,7) / BCH(15,5), whose check rows of equal weight are not contiguous",
    "C10_j": "generated LDPC matrices had no redundant checks -> the same codes with a repeated check and a sum of two checks inserted in the middle of H",
    "C11_j": "SC-vs-textbook words were decoded one per call -> the same words in one batch together with a strong clean codeword: every row must get the decisions it gets alone",
    "C16_j": "the EVM metric (a file of this property) was not exercised -> streaming EVM over generated splits and orders, with error-free batches anywhere, against the closed form; reset",
    "C19_j": "images were square and the feedback MODEL class was not built -> non-square admissible images for every architecture and DeepJSCCFeedbackModel as an architecture of its own",
    "C20_j": "constraint members were small -> members of 2 x 16384 samples with very different clipping effort; Hypothesis 'flaky' errors are reported as non-repeatable answers",
}
for tag in sys.argv[1:]:
    pid = tag.split("_")[0]
    wt = f"/tmp/wt_{tag}"
    out = f"/verif/seeded/{tag}"
    os.makedirs(out, exist_ok=True)
    shutil.copy(f"{wt}/patch.diff", f"{out}/patch.diff")
    shutil.copy(f"{wt}/demo_{pid}.py", f"{out}/demo_{pid}.py")
    try:
        am = json.load(open(f"{wt}/meta.json"))
    except Exception:
        am = {}
    conf = open(f"/tmp/seedwork/confirm_{tag}.log").read() if os.path.exists(f"/tmp/seedwork/confirm_{tag}.log") else ""
    m = re.search(r"demo_with_change_rc=(\d+) demo_without_change_rc=(\d+)", conf)
    sp = None
    for sp in re.finditer(r"stable_pass=(\d+) passed_now=(\d+) stable_not_passing=(\d+)", conf):
        pass  # the last line counts (a flaky unseeded pinned test, test_ssim_kernel_size, is re-run serially and the amended result appended)
    det = {}
    for tier in ("quick", "thorough"):
        p = f"/tmp/seedwork/eval_wt_{tag}_{tier}.log"
        if os.path.exists(p):
            t = open(p).read()
            clauses = sorted(set(re.findall(r"clause=(\S+)", t)))
            det[tier] = {"violations": len(re.findall(r"^VIOLATION", t, re.M)), "clauses": clauses[:12], "exit_code": 1 if "VIOLATION" in t else (2 if "HARNESS-ERROR" in t else 0)}
    meta = {
        "name": tag, "property": pid,
        "summary": am.get("summary"), "needs_to_manifest": am.get("needs"), "files": am.get("files"),
        "origin": "written by an independent sub-agent that saw only the property text and its own scratch worktree (nothing from /verif)",
        "confirmed_by_me": {
            "demo_exit_with_change": int(m.group(1)) if m else None, "demo_exit_without_change": int(m.group(2)) if m else None,
            "pinned_suite_with_change": {"stable_pass": int(sp.group(1)), "passed": int(sp.group(2)), "not_passing": int(sp.group(3)),
                                         "note": "test_ssim_kernel_size (unseeded random data) needed a serial retry" if "flaky test_ssim_kernel_size" in conf else None} if sp else None,
            "commands": [f"tools/seeded_confirm.sh {wt} {pid}   # demo with / without the change (git apply -R), then tools/baseline.py on the worktree",
                         f"tools/seeded_eval.sh {wt} {pid} quick   # ./check {pid} with kaira imported from the worktree",
                         f"git -C /repo apply seeded/{tag}/patch.diff && ./check {pid} --tier quick; git -C /repo checkout -- ."],
        },
        "detected_by_check": det,
        "initially_missed": MISSED.get(tag),
    }
    json.dump(meta, open(f"{out}/meta.json", "w"), indent=1)
    print(tag, "stored;", "demo", meta["confirmed_by_me"]["demo_exit_with_change"], meta["confirmed_by_me"]["demo_exit_without_change"], "suite", sp.group(0) if sp else None, "detected", {k: v["violations"] for k, v in det.items()})
