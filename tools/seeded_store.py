#!/venv/bin/python
"""usage: tools/seeded_store.py <tag> [<tag> ...]   e.g. C01_a
Copies a confirmed seeded change from its scratch worktree /tmp/wt_<tag> into /verif/seeded/<tag>/ and writes meta.json
from the agent's meta, my confirmation log (/tmp/seedwork/confirm_<tag>.log) and the evaluation log (/tmp/seedwork/eval_wt_<tag>_<tier>.log)."""
import json, os, re, shutil, sys
for tag in sys.argv[1:]:
    pid = tag.split("_")[0]
    wt = f"/tmp/wt_{tag}"
    out = f"/verif/seeded/{tag}"
    os.makedirs(out, exist_ok=True)
    shutil.copy(f"{wt}/patch.diff", f"{out}/patch.diff")
    shutil.copy(f"{wt}/demo_{pid}.py", f"{out}/demo_{pid}.py")
    try:
        am = json.load(open(f"{wt}/meta.json"))
    except Exception:
        am = {}
    conf = open(f"/tmp/seedwork/confirm_{tag}.log").read() if os.path.exists(f"/tmp/seedwork/confirm_{tag}.log") else ""
    m = re.search(r"demo_with_change_rc=(\d+) demo_without_change_rc=(\d+)", conf)
    sp = re.search(r"stable_pass=(\d+) passed_now=(\d+) stable_not_passing=(\d+)", conf)
    det = {}
    for tier in ("quick", "thorough"):
        p = f"/tmp/seedwork/eval_wt_{tag}_{tier}.log"
        if os.path.exists(p):
            t = open(p).read()
            clauses = sorted(set(re.findall(r"clause=(\S+)", t)))
            det[tier] = {"violations": len(re.findall(r"^VIOLATION", t, re.M)), "clauses": clauses[:12], "exit_code": 1 if "VIOLATION" in t else (2 if "HARNESS-ERROR" in t else 0)}
    meta = {
        "name": tag, "property": pid,
        "summary": am.get("summary"), "needs_to_manifest": am.get("needs"), "files": am.get("files"),
        "origin": "written by an independent sub-agent that saw only the property text and its own scratch worktree (nothing from /verif)",
        "confirmed_by_me": {
            "demo_exit_with_change": int(m.group(1)) if m else None, "demo_exit_without_change": int(m.group(2)) if m else None,
            "pinned_suite_with_change": {"stable_pass": int(sp.group(1)), "passed": int(sp.group(2)), "not_passing": int(sp.group(3))} if sp else None,
            "commands": [f"tools/seeded_confirm.sh {wt} {pid}   # demo with / without the change (git apply -R), then tools/baseline.py on the worktree",
                         f"tools/seeded_eval.sh {wt} {pid} quick   # ./check {pid} with kaira imported from the worktree",
                         f"git -C /repo apply seeded/{tag}/patch.diff && ./check {pid} --tier quick; git -C /repo checkout -- ."],
        },
        "detected_by_check": det,
    }
    json.dump(meta, open(f"{out}/meta.json", "w"), indent=1)
    print(tag, "stored;", "demo", meta["confirmed_by_me"]["demo_exit_with_change"], meta["confirmed_by_me"]["demo_exit_without_change"], "suite", sp.group(0) if sp else None, "detected", {k: v["violations"] for k, v in det.items()})
