#!/bin/bash
# usage: tools/seeded_run.sh <patch.diff> <ID> [tier]   — applies the change to /repo, runs the check, reverts.
patch=$1; id=$2; tier=${3:-quick}
cd /repo && git diff --quiet || { echo "/repo is dirty"; exit 2; }
git -C /repo apply "$patch" || { echo "patch does not apply"; exit 2; }
cd /verif && ./check $id --tier $tier --no-evidence > /tmp/seedwork/check_$id.log 2>&1; rc=$?
git -C /repo checkout -- . 
echo "check_rc=$rc"; grep -c "^VIOLATION" /tmp/seedwork/check_$id.log; grep "^  clause" /tmp/seedwork/check_$id.log | head -5 | cut -c1-220; grep SUMMARY /tmp/seedwork/check_$id.log | cut -c1-200
