#!/bin/bash
# Offline setup: nothing is compiled. Verifies the tool chain the checks need and self-checks the
# reference models (a bug in an oracle must show up here, exit 2, not as a kaira violation).
cd "$(dirname "${BASH_SOURCE[0]}")" || exit 2
export PIP_NO_INDEX=1 PYTHONHASHSEED=0 PYTHONPATH="$PWD" PYTHONWARNINGS=ignore PYTHONDONTWRITEBYTECODE=1
/venv/bin/python -c "import hypothesis" 2>/dev/null || /venv/bin/pip install --no-index --find-links /opt/veriftools/wheels hypothesis || exit 2
if ! PYTHONPATH="$PWD/.deps" /venv/bin/python -c "import atheris" 2>/dev/null; then
  /venv/bin/pip install -q --no-index --find-links /opt/veriftools/wheels --target "$PWD/.deps" atheris >/dev/null 2>&1 || echo "note: atheris not installable; fuzz campaigns will be skipped and say so"
fi
mkdir -p evidence replays
/venv/bin/python -m kverif.selfcheck || exit 2
echo "setup ok"
