"""Thin layer over Hypothesis: seeded case generation (collect-then-continue) and shrinking.

* draw_cases(strategy, n, seed, fn): runs fn on n generated examples.  fn records
  failures on its Ctx and does not raise, so generation continues behind a failure.
* shrink(strategy, predicate, seed): Hypothesis' own shrinker (hypothesis.find) reduces a
  failing example to a minimal one — that value becomes the replay case.
Every random choice goes through Hypothesis and is a pure function of the seed
(database=None, derandomize=False, explicit seed).
"""
from __future__ import annotations

import random

import hypothesis
from hypothesis import HealthCheck, Phase, given, settings
from hypothesis import strategies as st  # noqa: F401
from hypothesis.errors import NoSuchExample

_SUPPRESS = list(HealthCheck)


def draw_cases(strategy, n: int, seed: int, fn, shrink_phase: bool = False):
    phases = [Phase.generate] + ([Phase.shrink] if shrink_phase else [])

    @hypothesis.seed(int(seed) & 0xFFFFFFFF)
    @settings(max_examples=int(n), database=None, deadline=None, derandomize=False, phases=phases,
              suppress_health_check=_SUPPRESS, report_multiple_bugs=False, print_blob=False)
    @given(strategy)
    def _t(x):
        fn(x)

    _t()


def shrink(strategy, predicate, seed: int, max_examples: int = 2000):
    """Return a minimal example satisfying predicate, or None."""
    try:
        return hypothesis.find(
            strategy, predicate, random=random.Random(int(seed)),
            settings=settings(max_examples=max_examples, database=None, deadline=None, suppress_health_check=_SUPPRESS),
        )
    except NoSuchExample:
        return None
