"""atheris (libFuzzer) campaigns.  run_atheris() launches `python -m kverif.fuzz <target> ...` in a
subprocess (libFuzzer ends the process itself), with a fresh corpus directory under /verif/.work that
is removed afterwards.  Targets carry the semantic oracle inside and *record* failing inputs (they do
not crash), so a campaign continues behind the first finding; the recorded inputs are then re-checked
by the calling property module through its ordinary clause code (that is what produces the failure
records / replay files)."""
from __future__ import annotations

import json
import os
import re
import shutil
import subprocess
import sys
import tempfile

ROOT = os.path.dirname(os.path.dirname(os.path.abspath(__file__)))
DEPS = os.path.join(ROOT, ".deps")


def run_atheris(target: str, runs: int, seed: int, timeout: int = 3000) -> dict:
    if not os.path.isdir(os.path.join(DEPS, "atheris")):
        return {"skipped": "atheris is not installed under /verif/.deps (setup.sh installs it from the offline wheelhouse)"}
    work = os.path.join(ROOT, ".work")
    os.makedirs(work, exist_ok=True)
    d = tempfile.mkdtemp(prefix=f"fuzz_{target}_", dir=work)
    try:
        corpus = os.path.join(d, "corpus")
        os.makedirs(corpus)
        out = os.path.join(d, "findings.jsonl")
        env = dict(os.environ)
        env["PYTHONPATH"] = ROOT + os.pathsep + DEPS + os.pathsep + env.get("PYTHONPATH", "")
        env["KVERIF_FUZZ_OUT"] = out
        cmd = [sys.executable, "-m", "kverif.fuzz", target, f"-runs={int(runs)}", f"-seed={int(seed) or 1}", "-max_len=64", f"-artifact_prefix={d}/", "-print_final_stats=1", corpus]
        p = subprocess.run(cmd, cwd=d, env=env, stdout=subprocess.PIPE, stderr=subprocess.STDOUT, text=True, timeout=timeout)
        m = re.search(r"stat::number_of_executed_units:\s*(\d+)", p.stdout) or re.search(r"Done (\d+) runs", p.stdout)
        findings = []
        if os.path.exists(out):
            with open(out) as f:
                for line in f:
                    try:
                        findings.append(json.loads(line))
                    except Exception:
                        pass
        res = {"executions": int(m.group(1)) if m else 0, "findings": findings, "returncode": p.returncode}
        if not m:
            res["skipped"] = "campaign produced no statistics: " + p.stdout[-300:].replace("\n", " | ")
        return res
    except subprocess.TimeoutExpired:
        return {"skipped": "campaign exceeded its wall-clock allowance (inconclusive)", "executions": 0}
    finally:
        shutil.rmtree(d, ignore_errors=True)


# --------------------------------------------------------------------------------------
# targets (executed in the subprocess)
# --------------------------------------------------------------------------------------

def _main():
    import atheris

    target = sys.argv[1]
    argv = [sys.argv[0]] + sys.argv[2:]
    out = os.environ["KVERIF_FUZZ_OUT"]
    seen = set()

    def record(x):
        key = json.dumps(x, sort_keys=True)
        if key in seen or len(seen) > 200:
            return
        seen.add(key)
        with open(out, "a") as f:
            f.write(key + "\n")

    if target == "gray":
        with atheris.instrument_imports(include=["kaira.modulations.utils"]):
            from kaira.modulations import utils as U

        def one(data):
            fdp = atheris.FuzzedDataProvider(data)
            n = fdp.ConsumeIntInRange(0, (1 << 60))
            if fdp.ConsumeBool():
                n &= 0xFFFFF
            g = U.binary_to_gray(n)
            if g != n ^ (n >> 1) or U.gray_to_binary(g) != n:
                record(n)
            b = U.gray_to_binary(n)
            if U.binary_to_gray(b) != n:
                record(n)
    elif target == "poly":
        with atheris.instrument_imports(include=["kaira.models.fec.algebra"]):
            from kaira.models.fec.algebra import BinaryPolynomial as BP, FiniteBifield
        from kverif.ref import poly as R

        def one(data):
            fdp = atheris.FuzzedDataProvider(data)
            op = fdp.ConsumeIntInRange(0, 3)
            if op < 2:
                a = fdp.ConsumeIntInRange(0, (1 << 48))
                b = fdp.ConsumeIntInRange(0, (1 << 24))
                A, B = BP(a), BP(b)
                bad = (A * B).value != R.mul(a, b) or A.gcd(B).value != R.gcd(a, b) or A.lcm(B).value != R.lcm(a, b)
                if b:
                    q, r = R.divmod2(a, b)
                    bad = bad or A.div(B).value != q or (A % B).value != r
                if bad:
                    record({"kind": "poly_pair", "a": a, "b": b})
            else:
                m = fdp.ConsumeIntInRange(1, 12)
                F = FiniteBifield(m)
                f = F.modulus.value
                a = fdp.ConsumeIntInRange(0, (1 << m) - 1)
                b = fdp.ConsumeIntInRange(0, (1 << m) - 1)
                e = fdp.ConsumeIntInRange(0, 4 << m)
                bad = (F(a) * F(b)).value != R.mulmod(a, b, f) or (F(a) ** e).value != R.powmod(a, e, f)
                if a and (F(a) * F(a).inverse()).value != 1:
                    bad = True
                if bad:
                    record({"kind": "field_pair", "m": m, "a": a, "b": b, "e": e})
    else:
        raise SystemExit("unknown target " + target)

    atheris.Setup(argv, one)
    atheris.Fuzz()


if __name__ == "__main__":
    _main()
