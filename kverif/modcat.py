"""Modulation scheme catalogue shared by C05, C06, C09, C14, C15, C20."""
from __future__ import annotations

import itertools

import numpy as np


def all_schemes(extended=False):
    """list of scheme descriptors (flat dicts). extended=True appends the admissible orders beyond the shared catalogue (binary and 128/256-ary PSK,
    128/256-ary PAM, 32/64-ary DPSK); used by the per-scheme units of C05, C06 and C14 only (the cross-scheme consumers keep the base list)."""
    out = [{"scheme": "bpsk"}, {"scheme": "identity"}]
    for nz in (True, False):
        out.append({"scheme": "qpsk", "normalize": nz})
        out.append({"scheme": "oqpsk", "normalize": nz})
    for order in (4, 8, 16, 32, 64):
        for gray in (True, False):
            out.append({"scheme": "psk", "order": order, "gray": gray})
    for order in (4, 16, 64, 256):
        for gray in (True, False):
            for nz in (True, False):
                out.append({"scheme": "qam", "order": order, "gray": gray, "normalize": nz})
    for order in (2, 4, 8, 16, 32, 64):
        for gray in (True, False):
            for nz in (True, False):
                out.append({"scheme": "pam", "order": order, "gray": gray, "normalize": nz})
    for order in (2, 4, 8, 16):
        for gray in (True, False):
            out.append({"scheme": "dpsk", "order": order, "gray": gray})
    out.append({"scheme": "dbpsk"})
    out.append({"scheme": "dqpsk"})
    for gray in (True, False):
        out.append({"scheme": "pi4qpsk", "gray": gray})
    if extended:
        for gray in (True, False):
            for order in (2, 128, 256):
                out.append({"scheme": "psk", "order": order, "gray": gray})
            for order in (128, 256):
                out.append({"scheme": "pam", "order": order, "gray": gray, "normalize": gray})
            for order in (32, 64):
                out.append({"scheme": "dpsk", "order": order, "gray": gray})
    return out


def kind(s):
    sc = s["scheme"]
    if sc in ("dpsk", "dbpsk", "dqpsk"):
        return "differential"
    if sc == "oqpsk":
        return "offset"
    if sc == "pi4qpsk":
        return "alternating"
    return "memoryless"


def bits_per_symbol(s):
    sc = s["scheme"]
    if sc in ("bpsk", "identity", "dbpsk"):
        return 1
    if sc in ("qpsk", "oqpsk", "pi4qpsk", "dqpsk"):
        return 2
    return int(np.log2(s["order"]))


def build(s, via_registry=False):
    """returns (modulator, demodulator) in eval mode, state reset."""
    import kaira.modulations as M
    from kaira.modulations.registry import ModulationRegistry as R
    sc = s["scheme"]
    kw_m, kw_d = {}, {}
    name = sc
    if sc in ("qpsk", "oqpsk"):
        kw_m = kw_d = {"normalize": s["normalize"]}
    elif sc == "psk":
        kw_m = kw_d = {"order": s["order"], "gray_coding": s["gray"]}
    elif sc in ("qam", "pam"):
        kw_m = kw_d = {"order": s["order"], "gray_coding": s["gray"], "normalize": s["normalize"]}
    elif sc == "dpsk":
        kw_m = kw_d = {"order": s["order"], "gray_coding": s["gray"]}
    elif sc == "pi4qpsk":
        kw_m = {"gray_coded": s["gray"]}
        kw_d = {"gray_coded": s["gray"]}
    if via_registry:
        regname = {"bpsk": "bpskmodulator", "qpsk": "qpskmodulator", "psk": "pskmodulator", "qam": "qammodulator", "pam": "pammodulator",
                   "dpsk": "dpskmodulator", "identity": "identitymodulator"}.get(sc, sc)
        dregname = regname.replace("modulator", "demodulator")
        mod = R.create(regname, "modulator", **kw_m)
        try:
            dem = R.create(dregname, "demodulator", **kw_d)
        except TypeError:
            if sc != "pi4qpsk":
                raise
            dem = R.create(dregname, "demodulator")
    else:
        cls = {"bpsk": (M.BPSKModulator, M.BPSKDemodulator), "qpsk": (M.QPSKModulator, M.QPSKDemodulator), "psk": (M.PSKModulator, M.PSKDemodulator),
               "qam": (M.QAMModulator, M.QAMDemodulator), "pam": (M.PAMModulator, M.PAMDemodulator), "dpsk": (M.DPSKModulator, M.DPSKDemodulator),
               "dbpsk": (M.DBPSKModulator, M.DBPSKDemodulator), "dqpsk": (M.DQPSKModulator, M.DQPSKDemodulator), "oqpsk": (M.OQPSKModulator, M.OQPSKDemodulator),
               "pi4qpsk": (M.Pi4QPSKModulator, M.Pi4QPSKDemodulator), "identity": (M.IdentityModulator, M.IdentityDemodulator)}[sc]
        mod = cls[0](**kw_m)
        try:
            dem = cls[1](**kw_d)
        except TypeError:
            if sc != "pi4qpsk":
                raise
            dem = cls[1]()  # demodulator has no labelling option
    mod.eval()
    dem.eval()
    reset(mod, dem)
    return mod, dem


def reset(*mods):
    for m in mods:
        if hasattr(m, "reset_state"):
            m.reset_state()
        inner = getattr(m, "modulator", None)
        if inner is not None and hasattr(inner, "reset_state"):
            inner.reset_state()


def all_groups(b):
    """(2^b, b) array of all bit groups, MSB first."""
    return np.array(list(itertools.product([0, 1], repeat=b)), dtype=np.float32)


def published_table(mod):
    """(points complex128 [M], labels int [M,b]) or None."""
    c = getattr(mod, "constellation", None)
    bp = getattr(mod, "bit_patterns", None)
    if c is None or bp is None:
        return None
    c = c.detach().cpu().numpy().astype(np.complex128).reshape(-1)
    bp = np.rint(bp.detach().cpu().numpy()).astype(int)
    return c, bp


def induced_table(s, mod):
    """table {bit group -> modulated point} obtained by modulating every group as the first symbol after a reset."""
    import torch
    b = bits_per_symbol(s)
    G = all_groups(b)
    pts = []
    for g in G:
        reset(mod)
        if b == 1:
            x = torch.tensor([g[0], g[0]])  # PSK-type modulators treat 1-element inputs as indices; use two symbols
            y = mod(x)
            pts.append(complex(y.reshape(-1)[0]))
        else:
            y = mod(torch.from_numpy(np.concatenate([g, g])).float().unsqueeze(0))
            pts.append(complex(y.reshape(-1)[0]))
    reset(mod)
    return np.array(pts, dtype=np.complex128), G.astype(int)
