"""CLI:  python -m kverif.run <ID> [--tier quick|thorough] [--replay FILE] [--unit SUBSTR] [--jobs N]

exit 0: property held on everything explored (KNOWN-FINDING lines allowed)
exit 1: at least one unlisted violation (VIOLATION property=<id> replay=<path>)
exit 2: harness error (never reported as a violation)
"""
from __future__ import annotations

import argparse
import concurrent.futures as cf
import importlib
import json
import multiprocessing as mp
import os
import sys
import time
import traceback

from . import core

UNIT_TIMEOUT_S = {"quick": 900, "thorough": 4 * 3600}
MAX_VIOLATION_LINES = 40


def main(argv=None) -> int:
    ap = argparse.ArgumentParser()
    ap.add_argument("prop")
    ap.add_argument("--tier", default=os.environ.get("VERIF_TIER", "quick"), choices=["quick", "thorough"])
    ap.add_argument("--replay", default=None)
    ap.add_argument("--unit", default=None, help="only run units whose name contains this substring")
    ap.add_argument("--jobs", type=int, default=int(os.environ.get("VERIF_JOBS", "16")))
    ap.add_argument("--no-evidence", action="store_true")
    args = ap.parse_args(argv)
    prop = args.prop.upper()
    try:
        seed = int(os.environ.get("VERIF_SEED", "1"))
    except ValueError:
        seed = 1
    try:
        mod = importlib.import_module("kverif.props." + prop.lower())
    except Exception:
        traceback.print_exc()
        print(f"HARNESS-ERROR property={prop} cannot import check module", flush=True)
        return 2

    if args.replay:
        return replay(prop, mod, args.replay, seed)

    t0 = time.time()
    try:
        units = mod.units(args.tier, seed)
    except Exception:
        traceback.print_exc()
        print(f"HARNESS-ERROR property={prop} units() failed", flush=True)
        return 2
    if args.unit:
        units = [u for u in units if args.unit in u.name]
    units.sort(key=lambda u: -u.weight)
    results, herr = [], []
    jobs = max(1, min(args.jobs, len(units)))
    if jobs == 1:
        for u in units:
            results.append(core.run_unit(prop, u, args.tier, seed))
    else:
        ctxm = mp.get_context("spawn")
        pending, attempt = list(units), 0
        while pending:
            attempt += 1
            died = []
            # a worker killed from outside (e.g. by the kernel's out-of-memory killer when other jobs share the machine) breaks the whole
            # pool: the units it took down are run once more in a fresh, smaller pool before anything is reported
            with cf.ProcessPoolExecutor(max_workers=jobs if attempt == 1 else max(1, min(4, jobs)), mp_context=ctxm) as ex:
                futs = {ex.submit(core.run_unit, prop, u, args.tier, seed): u for u in pending}
                try:
                    for f in cf.as_completed(futs, timeout=UNIT_TIMEOUT_S[args.tier]):
                        u = futs[f]
                        try:
                            results.append(f.result())
                        except Exception as e:  # worker died
                            if attempt == 1:
                                died.append(u)
                            else:
                                herr.append(f"unit {u.name}: worker failed twice: {e!r}")
                except cf.TimeoutError:
                    herr.append("time limit for the whole run exceeded; unfinished units: " + ", ".join(futs[f].name for f in futs if not f.done()))
                    for p in list(getattr(ex, "_processes", {}).values()):
                        p.terminate()
                    died = []
            if died:
                print(f"NOTE property={prop} {len(died)} unit(s) lost their worker process; running them again in a smaller pool", flush=True)
            pending = died
    for r in results:
        if r.get("harness_error"):
            herr.append(f"unit {r['unit']}:\n{r['harness_error']}")
    results.sort(key=lambda r: r["unit"])

    known = core.load_known()
    violations, known_seen = [], {}
    merged = {}
    for r in results:
        for fl in r["failures"]:
            key = fl["clause"] + "|" + core.canon(fl["cell"])
            m = merged.get(key)
            if m is None:
                merged[key] = dict(fl)
            else:
                m["count"] += fl["count"]
                if len(core.canon(fl["case"])) < len(core.canon(m["case"])):
                    cnt = m["count"]
                    m.update(fl)
                    m["count"] = cnt
    for _r in [0]:
        for fl in merged.values():
            e = core.match_known(fl, known)
            if e is not None:
                ks = known_seen.setdefault(e["id"], {"entry": e, "buckets": 0, "cases": 0})
                ks["buckets"] += 1
                ks["cases"] += fl["count"]
            else:
                violations.append(fl)

    for kid in sorted(known_seen):
        e = known_seen[kid]["entry"]
        print(f"KNOWN-FINDING: property={prop} {kid}: {e.get('what', '')} [{known_seen[kid]['buckets']} cells, {known_seen[kid]['cases']} cases]", flush=True)
    violations.sort(key=lambda f: (f["clause"], core.canon(f["cell"])))
    for i, fl in enumerate(violations):
        path = core.write_replay(fl)
        if i < MAX_VIOLATION_LINES:
            print(f"VIOLATION property={prop} replay={path}", flush=True)
            print(f"  clause={fl['clause']} cell={core.canon(fl['cell'])} count={fl['count']} what={fl.get('what', '')}", flush=True)
    if len(violations) > MAX_VIOLATION_LINES:
        print(f"  ... {len(violations) - MAX_VIOLATION_LINES} further violating cells (replay files written)", flush=True)

    wall = time.time() - t0
    ok_evidence = True
    if not args.no_evidence and not args.unit:
        try:
            write_evidence(prop, mod, args.tier, seed, results, violations, known_seen, wall, herr)
        except Exception:
            traceback.print_exc()
            ok_evidence = False
    ev = sum(r["evaluations"] for r in results)
    nt = sum(r["nontrivial"] for r in results)
    print(f"SUMMARY property={prop} tier={args.tier} seed={seed} units={len(results)} evaluations={ev} distinct_nontrivial={nt} "
          f"violating_cells={len(violations)} known_findings={len(known_seen)} wall_s={wall:.1f}", flush=True)
    if herr:
        for h in herr:
            print("HARNESS-ERROR " + h, file=sys.stderr, flush=True)
        print(f"HARNESS-ERROR property={prop} {len(herr)} unit(s) failed inside the harness (see stderr)", flush=True)
        return 2
    if not ok_evidence:
        return 2
    return 1 if violations else 0


def write_evidence(prop, mod, tier, seed, results, violations, known_seen, wall, herr):
    classes, samples, notes, exh = {}, [], [], {}
    for r in results:
        for k, v in r["classes"].items():
            classes[k] = classes.get(k, 0) + v
        notes.extend(r["notes"])
        for k, v in r["exhaustive"].items():
            exh[r["unit"] + ":" + k if k in exh else k] = v
    # samples: first from up to 8 different units, then fill
    for r in results:
        if r["samples"] and len(samples) < 8:
            samples.append({"unit": r["unit"], "case": r["samples"][0]})
    for r in results:
        for s in r["samples"][1:]:
            if len(samples) < 12:
                samples.append({"unit": r["unit"], "case": s})
    evaluations = sum(r["evaluations"] for r in results)
    nontrivial = sum(r["nontrivial"] for r in results)
    ev = {
        "property_id": prop,
        "tier": tier,
        "seed": seed,
        "level": "exploration",
        "coverage": {
            "evaluations": evaluations,
            "distinct_nontrivial": nontrivial,
            "rule": getattr(mod, "RULE", ""),
            "samples": samples,
            "exhaustive": bool(exh) and all(exh.values()) and getattr(mod, "EXHAUSTIVE_WHOLE", False),
            "exhaustive_parts": exh,
            "classes": dict(sorted(classes.items())),
            "units": len(results),
            "per_unit": [{"unit": r["unit"], "evaluations": r["evaluations"], "nontrivial": r["nontrivial"],
                          "failing_cases": r["fail_total"], "wall_s": r["wall_s"], "budget_hit": r["budget_hit"]} for r in results],
            "excluded_known": {k: {"cells": v["buckets"], "cases": v["cases"]} for k, v in sorted(known_seen.items())},
            "violating_cells": [{"clause": f["clause"], "cell": f["cell"], "count": f["count"]} for f in violations[:50]],
            "notes": notes[:40],
            "harness_errors": len(herr),
        },
        "assumptions": list(getattr(mod, "ASSUMPTIONS", [])),
        "wall_s": round(wall, 2),
        "violations": len(violations),
        "known_findings_seen": sorted(known_seen),
    }
    d = os.path.join(core.ROOT, "evidence")
    os.makedirs(d, exist_ok=True)
    tmp = os.path.join(d, f".{prop}.json.tmp")
    with open(tmp, "w") as f:
        json.dump(ev, f, indent=1, default=core._default)
    os.replace(tmp, os.path.join(d, f"{prop}.json"))


def replay(prop, mod, path, seed) -> int:
    try:
        with open(path) as f:
            payload = json.load(f)
        ctx = core.Ctx(prop, "replay", "quick", payload.get("seed", seed))
        import torch

        torch.set_num_threads(1)
        torch.manual_seed(payload.get("seed", seed))
        with core.quiet():
            if hasattr(mod, "replay"):
                mod.replay(ctx, payload)
            else:
                fn = core.resolve(payload["checker"])
                fn(ctx, payload["cell"], payload["case"])
    except Exception:
        traceback.print_exc()
        print(f"HARNESS-ERROR property={prop} replay failed to execute", flush=True)
        return 2
    known = core.load_known()
    bad = 0
    for fl in ctx.failures.values():
        e = core.match_known(fl, known)
        if e is not None:
            print(f"KNOWN-FINDING: property={prop} {e['id']}: {e.get('what', '')}")
        else:
            bad += 1
            print(f"VIOLATION property={prop} replay={path}")
            print(f"  clause={fl['clause']} cell={core.canon(fl['cell'])} observed={core.canon(fl['observed'])[:300]} expected={core.canon(fl['expected'])[:300]}")
    print(f"REPLAY property={prop} evaluations={ctx.evaluations} failures={len(ctx.failures)}")
    return 1 if bad else 0


if __name__ == "__main__":
    sys.exit(main())
