"""Code catalogue shared by C01-C04, C09, C10, C20.

spec  : full build recipe (JSON-able dict) — part of the replay case
cell  : coarse descriptor used for reporting and known-finding matching
"""
from __future__ import annotations

import numpy as np

from .ref import gf2, poly as RP

_CACHE: dict = {}


def _enc():
    import kaira.models.fec.encoders as E
    return E


def info_kind(info):
    if isinstance(info, str):
        return info
    lst = list(info)
    return "subset" if lst == sorted(lst) else "permuted"


def cell_of(spec: dict) -> dict:
    f = spec["family"]
    c = {"family": f}
    for k in ("mu", "extended", "delta", "n", "k", "r", "m", "name", "g"):
        if k in spec:
            c[k] = spec[k]
    if "info" in spec:
        c["info"] = info_kind(spec["info"])
    if f == "generic":
        c["systematic_cols"] = bool(spec.get("has_identity_cols", False))
        c["big"] = len(spec["G"]) * len(spec["G"][0]) > 30
    if f == "ldpc":
        c["rank_deficient"] = bool(spec.get("rank_deficient", False))
    return c


def build(spec: dict):
    import torch
    E = _enc()
    f = spec["family"]
    info = spec.get("info", "left")
    if f == "hamming":
        return E.HammingCodeEncoder(mu=spec["mu"], extended=spec.get("extended", False), information_set=info)
    if f == "golay":
        return E.GolayCodeEncoder(extended=spec.get("extended", False), information_set=info)
    if f == "repetition":
        return E.RepetitionCodeEncoder(repetition_factor=spec["n"])
    if f == "spc":
        return E.SingleParityCheckCodeEncoder(dimension=spec["k"])
    if f == "rm":
        return E.ReedMullerCodeEncoder(order=spec["r"], length_param=spec["m"])
    if f == "cyclic":
        return E.CyclicCodeEncoder(code_length=spec["n"], generator_polynomial=spec["g"], information_set=info)
    if f == "cyclic_std":
        return E.CyclicCodeEncoder.create_standard_code(spec["name"], information_set=info)
    if f == "bch":
        return E.BCHCodeEncoder(mu=spec["mu"], delta=spec["delta"], information_set=info)
    if f == "rs":
        return E.ReedSolomonCodeEncoder(mu=spec["mu"], delta=spec["delta"], information_set=info)
    if f == "systematic":
        return E.SystematicLinearBlockCodeEncoder(parity_submatrix=torch.tensor(spec["P"], dtype=torch.float32), information_set=info)
    if f == "generic":
        return E.LinearBlockCodeEncoder(generator_matrix=torch.tensor(spec["G"], dtype=torch.float32))
    if f == "ldpc":
        return E.LDPCCodeEncoder(check_matrix=torch.tensor(spec["H"], dtype=torch.int64))
    raise ValueError(f)


def build_cached(spec: dict):
    from .core import canon
    key = canon(spec)
    if key not in _CACHE:
        if len(_CACHE) > 64:
            _CACHE.clear()
        _CACHE[key] = build(spec)
    return _CACHE[key]


def nk_of(spec: dict):
    """(n, k) from the family formulas — independent of the library."""
    from math import comb
    f = spec["family"]
    if f == "hamming":
        mu, e = spec["mu"], spec.get("extended", False)
        return (2 ** mu - 1 + e, 2 ** mu - mu - 1)
    if f == "golay":
        return (24, 12) if spec.get("extended") else (23, 12)
    if f == "repetition":
        return (spec["n"], 1)
    if f == "spc":
        return (spec["k"] + 1, spec["k"])
    if f == "rm":
        return (2 ** spec["m"], sum(comb(spec["m"], i) for i in range(spec["r"] + 1)))
    if f == "cyclic":
        return (spec["n"], spec["n"] - RP.deg(spec["g"]))
    if f == "cyclic_std":
        return {"Hamming(7,4)": (7, 4), "Simplex(7,3)": (7, 3), "BCH(15,7)": (15, 11), "BCH(15,5)": (15, 5), "Golay(23,12)": (23, 12)}[spec["name"]]
    if f == "bch":
        n = 2 ** spec["mu"] - 1
        return (n, n - RP.deg(bch_generator(spec["mu"], spec["delta"])))
    if f == "rs":
        n = 2 ** spec["mu"] - 1
        return (n, n - (spec["delta"] - 1))
    if f == "systematic":
        return (len(spec["P"]) + len(spec["P"][0]), len(spec["P"]))
    if f == "generic":
        return (len(spec["G"][0]), len(spec["G"]))
    if f == "ldpc":
        n = len(spec["H"][0])
        return (n, n - gf2.rank(gf2.rows_from_matrix(spec["H"]), n))
    raise ValueError(f)


_PRIM = {}


def bch_generator(mu: int, delta: int) -> int:
    """Reference BCH generator polynomial: lcm of minimal polynomials of alpha^1..alpha^(delta-1),
    alpha a root of *a* primitive polynomial of degree mu.  (The code depends on which primitive
    polynomial is used only up to equivalence; n, k, and the BCH bound do not.)"""
    if mu not in _PRIM:
        _PRIM[mu] = RP._find_primitive(mu)
    f = _PRIM[mu]
    g = 1
    for i in range(1, delta):
        g = RP.lcm(g, RP.minimal_polynomial_of(RP.powmod(2, i, f), f))
    return g


# ----------------------------------------------------------------------------- spec lists

def _info_variants(n, k, rng, custom=True):
    out = ["left", "right"]
    if custom and 0 < k < n:
        sub = sorted(rng.choice(n, size=k, replace=False).tolist())
        out.append(sub)
        perm = rng.permutation(sub).tolist()
        if perm == sorted(perm) and k > 1:
            perm = perm[::-1]
        out.append(perm)
        # structured custom sets: a contiguous window that touches neither end, and the first k positions in reversed order
        if n - k >= 2 and k >= 2:
            s0 = (n - k) // 2
            out.append(list(range(s0, s0 + k)))
        if k >= 2 and k <= 16:
            out.append(list(range(k - 1, -1, -1)))
    return out


def structured_specs(tier: str, seed: int, families=None, custom_info=True):
    """Specs of the structured families (no generated matrices)."""
    T = tier == "thorough"
    rng = np.random.RandomState(seed)
    specs = []

    def want(f):
        return families is None or f in families

    if want("hamming"):
        for mu in range(2, 7):  # all Hamming codes of the size bound in both tiers (constructions switch branch at larger mu)
            for ext in (False, True):
                n, k = 2 ** mu - 1 + ext, 2 ** mu - mu - 1
                for info in _info_variants(n, k, rng, custom_info):
                    specs.append({"family": "hamming", "mu": mu, "extended": ext, "info": info})
    if want("golay"):
        for ext in (False, True):
            for info in _info_variants(23 + ext, 12, rng, custom_info):
                specs.append({"family": "golay", "extended": ext, "info": info})
    if want("repetition"):
        for n in range(1, 13):
            specs.append({"family": "repetition", "n": n})
    if want("spc"):
        for k in range(1, 13):
            specs.append({"family": "spc", "k": k})
    if want("rm"):
        for m in range(1, 7 if T else 6):
            for r in range(0, m):
                specs.append({"family": "rm", "r": r, "m": m})
    if want("cyclic"):
        for n in range(3, 22 if T else 16):
            divs = RP.divisors_xn1(n)
            if not T and len(divs) > 12:
                idx = sorted(rng.choice(len(divs), size=12, replace=False).tolist())
                divs = [divs[i] for i in idx]
            if n == 15 and 7 not in divs:
                divs = sorted(divs + [7])  # the witness of the recorded finding KF-C03-CYCLIC-DMIN-LARGE-K is explored at every seed
            for g in divs:
                for info in _info_variants(n, n - RP.deg(g), rng, custom_info and (g % 3 == 0)):
                    specs.append({"family": "cyclic", "n": n, "g": g, "info": info})
        for name in ("Hamming(7,4)", "Simplex(7,3)", "BCH(15,7)", "BCH(15,5)", "Golay(23,12)"):
            for info in ("left", "right"):
                specs.append({"family": "cyclic_std", "name": name, "info": info})
    if want("bch"):
        for mu in range(2, 7 if T else 5):
            for delta in range(2, 2 ** mu):
                specs.append({"family": "bch", "mu": mu, "delta": delta, "info": "left", "probe": True})
    if want("rs"):
        for mu in range(2, 5 if T else 4):
            for delta in range(2, 2 ** mu - 1 + 1):
                for info in ("left", "right"):
                    specs.append({"family": "rs", "mu": mu, "delta": delta, "info": info})
    return specs


def expand_bch(spec, rng=None, custom_info=True):
    """BCH specs are probed first (constructor decides whether delta is an accepted Bose distance)."""
    out = []
    for info in ("left", "right"):
        s = dict(spec)
        s.pop("probe", None)
        s["info"] = info
        out.append(s)
    return out
