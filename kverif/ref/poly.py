"""Reference GF(2)[X] / GF(2^m) arithmetic on Python ints (bit i = coefficient of X^i).

Independent of kaira.  Used as the oracle of C18 and by C03 (divisors of X^n+1,
generator-polynomial multiples, cyclotomic cosets / BCH generator polynomials).
"""
from __future__ import annotations

from functools import lru_cache


def deg(a: int) -> int:
    return a.bit_length() - 1


def mul(a: int, b: int) -> int:
    r = 0
    while b:
        if b & 1:
            r ^= a
        a <<= 1
        b >>= 1
    return r


def divmod2(a: int, b: int):
    if b == 0:
        raise ZeroDivisionError
    q = 0
    db = deg(b)
    while a and deg(a) >= db:
        s = deg(a) - db
        q |= 1 << s
        a ^= b << s
    return q, a


def mod(a: int, b: int) -> int:
    return divmod2(a, b)[1]


def gcd(a: int, b: int) -> int:
    while b:
        a, b = b, mod(a, b)
    return a


def xgcd(a: int, b: int):
    """returns (g, s, t) with s*a + t*b = g over GF(2)."""
    r0, r1, s0, s1, t0, t1 = a, b, 1, 0, 0, 1
    while r1:
        q, r = divmod2(r0, r1)
        r0, r1 = r1, r
        s0, s1 = s1, s0 ^ mul(q, s1)
        t0, t1 = t1, t0 ^ mul(q, t1)
    return r0, s0, t0


def lcm(a: int, b: int) -> int:
    if a == 0 or b == 0:
        return 0
    return divmod2(mul(a, b), gcd(a, b))[0]


def mulmod(a: int, b: int, f: int) -> int:
    return mod(mul(a, b), f)


def powmod(a: int, e: int, f: int) -> int:
    r = 1
    a = mod(a, f)
    while e:
        if e & 1:
            r = mulmod(r, a, f)
        a = mulmod(a, a, f)
        e >>= 1
    return r


def prime_factors(n: int):
    out, p = [], 2
    while p * p <= n:
        if n % p == 0:
            out.append(p)
            while n % p == 0:
                n //= p
        p += 1
    if n > 1:
        out.append(n)
    return out


def is_irreducible(f: int) -> bool:
    """Trial division by every polynomial of degree 1..deg/2 for small degree, Rabin otherwise."""
    d = deg(f)
    if d <= 0:
        return False
    if d == 1:
        return True
    if d <= 16:
        for g in range(2, 1 << (d // 2 + 1)):
            if deg(g) >= 1 and mod(f, g) == 0:
                return False
        return True
    # Rabin: x^(2^d) == x mod f and gcd(x^(2^(d/p)) - x, f) == 1 for primes p | d
    x = 2
    t = x
    for _ in range(d):
        t = mulmod(t, t, f)
    if t != mod(x, f):
        return False
    for p in prime_factors(d):
        t = x
        for _ in range(d // p):
            t = mulmod(t, t, f)
        if gcd(t ^ x, f) != 1:
            return False
    return True


def order_of_x(f: int) -> int:
    """Multiplicative order of x modulo f (f(0) must be 1); by brute stepping."""
    if f & 1 == 0:
        raise ValueError("x is not a unit")
    if deg(f) == 1:  # f = x+1 : x == 1
        return 1
    t, k = 2, 1
    t = mod(t, f)
    while t != 1:
        t = mod(t << 1, f)
        k += 1
        if k > (1 << deg(f)):
            raise RuntimeError("no order")
    return k


def is_primitive(f: int) -> bool:
    m = deg(f)
    if f & 1 == 0 or not is_irreducible(f):
        return False
    n = (1 << m) - 1
    if n == 1:
        return True
    if powmod(2, n, f) != 1:
        return False
    return all(powmod(2, n // p, f) != 1 for p in prime_factors(n))


def cyclotomic_coset(s: int, n: int):
    out, t = [], s % n
    while t not in out:
        out.append(t)
        t = (2 * t) % n
    return out


def minimal_polynomial_of(value: int, f: int) -> int:
    """Minimal polynomial over GF(2) of the element `value` of GF(2)[x]/(f), f irreducible.

    Product over the Frobenius orbit of (X + c), computed with coefficient arithmetic in the field.
    """
    orbit, c = [], value
    while c not in orbit:
        orbit.append(c)
        c = mulmod(c, c, f)
    # polynomial with field coefficients: list coeffs[i] of X^i
    coeffs = [1]
    for c in orbit:
        new = [0] * (len(coeffs) + 1)
        for i, a in enumerate(coeffs):
            new[i + 1] ^= a  # X * a
            new[i] ^= mulmod(a, c, f)  # c * a
        coeffs = new
    r = 0
    for i, a in enumerate(coeffs):
        if a not in (0, 1):
            raise ArithmeticError("minimal polynomial has a non-binary coefficient: f not irreducible?")
        r |= a << i
    return r


def eval_in_field(p: int, value: int, f: int) -> int:
    """Evaluate binary polynomial p at the field element `value`."""
    r, pw = 0, 1
    while p:
        if p & 1:
            r ^= pw
        pw = mulmod(pw, value, f)
        p >>= 1
    return r


def factor_xn1(n: int):
    """Irreducible factorisation of X^n+1 over GF(2) as a list of (factor, multiplicity)."""
    f = (1 << n) | 1
    out = []
    # n = 2^a * n', X^n+1 = (X^n'+1)^(2^a)
    a, n1 = 0, n
    while n1 % 2 == 0:
        n1 //= 2
        a += 1
    mult = 1 << a
    if n1 == 1:
        return [(0b11, n)]
    # find m with n1 | 2^m - 1
    m = 1
    while ((1 << m) - 1) % n1:
        m += 1
    fld = _find_primitive(m)
    step = ((1 << m) - 1) // n1
    beta = powmod(2, step, fld)  # primitive n1-th root of unity
    seen = set()
    for s in range(n1):
        if s in seen:
            continue
        cs = cyclotomic_coset(s, n1)
        seen.update(cs)
        out.append((minimal_polynomial_of(powmod(beta, s, fld), fld), mult))
    prod = 1
    for g, e in out:
        for _ in range(e):
            prod = mul(prod, g)
    assert prod == f, "factorisation self-check failed"
    return out


@lru_cache(maxsize=None)
def _find_primitive(m: int) -> int:
    for f in range(1 << m, 1 << (m + 1)):
        if f & 1 and is_primitive(f):
            return f
    raise RuntimeError


def divisors_xn1(n: int, limit: int | None = None):
    """All divisors g of X^n+1 with 0 < deg g < n (ints)."""
    fac = factor_xn1(n)
    divs = [1]
    for g, e in fac:
        new = []
        pw = 1
        for _ in range(e + 1):
            for d in divs:
                new.append(mul(d, pw))
            pw = mul(pw, g)
        divs = new
    divs = sorted(set(d for d in divs if 0 < deg(d) < n))
    return divs if limit is None else divs[:limit]
