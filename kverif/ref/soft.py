"""Reference soft-decision computations in float64 (independent of kaira):
exact bitwise posteriors by codebook summation, soft-ML, textbook flooding sum-product / min-sum,
textbook successive-cancellation recursion and the Arikan transform."""
from __future__ import annotations

import numpy as np


def codebook_bits(G: np.ndarray) -> np.ndarray:
    """all codewords (2^k, n) of the row space of binary G (k x n), message index bit i = row i."""
    k, n = G.shape
    idx = np.arange(1 << k)
    M = ((idx[:, None] >> np.arange(k)[None, :]) & 1).astype(np.int64)
    return (M @ G.astype(np.int64)) % 2


def nullspace_codebook(H: np.ndarray) -> np.ndarray:
    from . import gf2
    n = H.shape[1]
    basis = gf2.null_space(gf2.rows_from_matrix(H), n)
    G = np.array([gf2.int_to_vec(b, n) for b in basis], dtype=np.int64).reshape(len(basis), n)
    return codebook_bits(G)


def posterior_llrs(C: np.ndarray, llr: np.ndarray) -> np.ndarray:
    """exact log P(c_i=0|y)/P(c_i=1|y) for a uniform prior on the codebook C (M,n) and channel LLRs (n,)."""
    metric = -(C.astype(np.float64) @ llr.astype(np.float64))  # log-likelihood up to a constant
    out = np.empty(C.shape[1])
    for i in range(C.shape[1]):
        m0 = metric[C[:, i] == 0]
        m1 = metric[C[:, i] == 1]
        a0 = m0.max() + np.log(np.exp(m0 - m0.max()).sum()) if len(m0) else -np.inf
        a1 = m1.max() + np.log(np.exp(m1 - m1.max()).sum()) if len(m1) else -np.inf
        out[i] = a0 - a1
    return out


def soft_ml_metric(C: np.ndarray, llr: np.ndarray) -> np.ndarray:
    """correlation of every codeword with the LLRs: sum_j (1-2c_j) llr_j  (larger = more likely)."""
    return (1 - 2 * C.astype(np.float64)) @ llr.astype(np.float64)


def flooding(H: np.ndarray, llr: np.ndarray, iters: int, mode: str = "sum_product", scale: float = 1.0, offset: float = 0.0):
    """Textbook flooding decoder. returns (posterior (n,), info dict with max |check message| and min (scale*min - offset))."""
    H = np.asarray(H)
    r, n = H.shape
    edges = [(c, v) for c in range(r) for v in range(n) if H[c, v]]
    cv = {e: 0.0 for e in edges}
    max_cv, min_margin = 0.0, np.inf
    total = llr.astype(np.float64).copy()
    for _ in range(iters):
        vc = {(c, v): total[v] - cv[(c, v)] for (c, v) in edges}
        new = {}
        for c in range(r):
            vs = [v for v in range(n) if H[c, v]]
            for v in vs:
                others = [vc[(c, u)] for u in vs if u != v]
                if not others:
                    new[(c, v)] = 0.0
                    continue
                if mode == "sum_product":
                    p = np.prod(np.tanh(np.array(others) / 2.0))
                    p = min(max(p, -1 + 1e-16), 1 - 1e-16)
                    m = 2 * np.arctanh(p)
                else:
                    sgn = np.prod(np.sign(others))
                    mag = scale * np.min(np.abs(others))
                    min_margin = min(min_margin, mag - offset)
                    m = sgn * mag
                    if offset:
                        m = m - np.sign(m) * offset
                new[(c, v)] = m
                max_cv = max(max_cv, abs(m))
        cv = new
        total = llr.astype(np.float64).copy()
        for (c, v), m in cv.items():
            total[v] += m
    return total, {"max_cv": max_cv, "min_margin": min_margin}


# ----------------------------------------------------------------------------- polar

def kron_power(m: int) -> np.ndarray:
    F = np.array([[1, 0], [1, 1]], dtype=np.int64)
    G = np.array([[1]], dtype=np.int64)
    for _ in range(m):
        G = np.kron(G, F)
    return G


def bit_reverse_perm(m: int) -> np.ndarray:
    N = 1 << m
    return np.array([int(format(i, f"0{m}b")[::-1], 2) if m else 0 for i in range(N)], dtype=np.int64)


def sc_decode(llr: np.ndarray, info_mask: np.ndarray, frozen_value: int, f: str = "sum_product", clip: float = None):
    """Textbook successive cancellation for x = u.F^{(x)m} (natural order, no bit reversal), float64.
    returns (u_hat (N,), decision LLRs (N,), max intermediate |LLR|)."""
    N = len(llr)
    dec = np.zeros(N)
    u = np.zeros(N, dtype=np.int64)
    stats = {"max": float(np.max(np.abs(llr)))}

    def fop(a, b):
        if f == "min_sum":
            r = np.sign(a) * np.sign(b) * np.minimum(np.abs(a), np.abs(b))
            # optional saturation of the CHECK node only (the library documents a 'clip' for it); the accumulate node is never clipped
            return r if clip is None else np.clip(r, -clip, clip)
        t = np.tanh(a / 2) * np.tanh(b / 2)
        t = np.clip(t, -1 + 1e-16, 1 - 1e-16)
        return 2 * np.arctanh(t)

    def rec(L, off):
        n = len(L)
        if n == 1:
            i = off
            dec[i] = L[0]
            if info_mask[i]:
                u[i] = 0 if L[0] >= 0 else 1
            else:
                u[i] = frozen_value
            return np.array([u[i]], dtype=np.int64)
        half = n // 2
        a, b = L[:half], L[half:]
        # x = [x1 xor x2, x2] with x1 = left half transform, x2 = right half
        Lf = fop(a, b)
        stats["max"] = max(stats["max"], float(np.max(np.abs(Lf))))
        x1 = rec(Lf, off)
        Lg = b + (1 - 2 * x1) * a
        stats["max"] = max(stats["max"], float(np.max(np.abs(Lg))))
        x2 = rec(Lg, off + half)
        return np.concatenate([x1 ^ x2, x2])

    rec(llr.astype(np.float64), 0)
    return u, dec, stats["max"]


def selfcheck():
    # posterior of a repetition code = sum of LLRs; SPC(3): boxplus
    C = np.array([[0, 0, 0], [1, 1, 1]])
    l = np.array([0.3, -1.0, 2.0])
    assert np.allclose(posterior_llrs(C, l), l.sum())
    H = np.array([[1, 1, 1]])
    C = nullspace_codebook(H)
    assert len(C) == 4
    p = posterior_llrs(C, l)
    bp = 2 * np.arctanh(np.tanh(l[1] / 2) * np.tanh(l[2] / 2)) + l[0]
    assert abs(p[0] - bp) < 1e-9
    tot, _ = flooding(H, l, 3)
    assert np.allclose(tot, p, atol=1e-9)
    # tree with two checks: flooding BP is exact
    H2 = np.array([[1, 1, 1, 0, 0], [0, 0, 1, 1, 1]])
    l2 = np.array([0.5, -1.2, 0.7, 1.4, -0.3])
    tot, _ = flooding(H2, l2, 6)
    assert np.allclose(tot, posterior_llrs(nullspace_codebook(H2), l2), atol=1e-9)
    # Arikan: G_4
    assert (kron_power(2) == np.array([[1, 0, 0, 0], [1, 1, 0, 0], [1, 0, 1, 0], [1, 1, 1, 1]])).all()
    assert bit_reverse_perm(3).tolist() == [0, 4, 2, 6, 1, 5, 3, 7]
    # SC on clean LLRs returns u
    rng = np.random.RandomState(0)
    for m in (1, 2, 3, 4):
        N = 1 << m
        G = kron_power(m)
        mask = np.zeros(N, dtype=bool)
        mask[rng.choice(N, size=N // 2, replace=False)] = True
        u = np.where(mask, rng.randint(0, 2, size=N), 0)
        x = (u @ G) % 2
        uh, _, _ = sc_decode((1 - 2 * x) * 3.0, mask, 0)
        assert (uh == u).all()
        uh, _, _ = sc_decode((1 - 2 * x) * 3.0, mask, 0, "min_sum")
        assert (uh == u).all()
