"""Reference GF(2) linear algebra on bit-packed rows (Python ints; bit j = column j) and
codebook tools (enumeration, weight distribution, minimum distance, MacWilliams).
Independent of kaira/torch."""
from __future__ import annotations

from math import comb

import numpy as np


def rows_from_matrix(M) -> list:
    """M: 2-D array-like of 0/1 (anything whose entries round to 0/1) -> list of int rows."""
    A = np.asarray(M)
    A = (np.rint(A.astype(np.float64)).astype(np.int64)) & 1
    out = []
    for r in A:
        v = 0
        for j in np.nonzero(r)[0]:
            v |= 1 << int(j)
        out.append(v)
    return out


def is_binary(M) -> bool:
    A = np.asarray(M, dtype=np.float64)
    return bool(np.all((A == 0) | (A == 1)))


def vec_to_int(v) -> int:
    r = 0
    for j, b in enumerate(v):
        if int(round(float(b))) & 1:
            r |= 1 << j
    return r


def int_to_vec(x: int, n: int) -> list:
    return [(x >> j) & 1 for j in range(n)]


def rref(rows: list, ncols: int):
    """returns (reduced rows without zero rows, pivot columns)."""
    rows = [r for r in rows]
    piv = []
    r = 0
    for c in range(ncols):
        p = None
        for i in range(r, len(rows)):
            if (rows[i] >> c) & 1:
                p = i
                break
        if p is None:
            continue
        rows[r], rows[p] = rows[p], rows[r]
        for i in range(len(rows)):
            if i != r and (rows[i] >> c) & 1:
                rows[i] ^= rows[r]
        piv.append(c)
        r += 1
        if r == len(rows):
            break
    return rows[:r], piv


def rank(rows: list, ncols: int) -> int:
    return len(rref(rows, ncols)[1])


def null_space(rows: list, ncols: int) -> list:
    """basis of {x : R x^T = 0}."""
    red, piv = rref(rows, ncols)
    free = [c for c in range(ncols) if c not in piv]
    basis = []
    for f in free:
        v = 1 << f
        for r, p in zip(red, piv):
            if (r >> f) & 1:
                v |= 1 << p
        basis.append(v)
    return basis


def dot(a: int, b: int) -> int:
    return bin(a & b).count("1") & 1


def mat_vec(rows: list, x: int) -> int:
    """(R x^T) as int with bit i = row i . x"""
    s = 0
    for i, r in enumerate(rows):
        s |= dot(r, x) << i
    return s


def vec_mat(m: int, rows: list) -> int:
    """m . G : XOR of the rows selected by the bits of m."""
    c = 0
    i = 0
    while m:
        if m & 1:
            c ^= rows[i]
        m >>= 1
        i += 1
    return c


def in_rowspace(x: int, red_rows: list, piv: list) -> bool:
    for r, p in zip(red_rows, piv):
        if (x >> p) & 1:
            x ^= r
    return x == 0


def same_rowspace(a: list, b: list, ncols: int) -> bool:
    ra, pa = rref(a, ncols)
    rb, pb = rref(b, ncols)
    return pa == pb and sorted(ra) == sorted(rb)


# ---------------------------------------------------------------------------- codebooks

def codebook(rows: list) -> np.ndarray:
    """All 2^k codewords indexed by message int (bit i of index = message bit i) as uint64 array (n<=63)."""
    k = len(rows)
    cb = np.zeros(1, dtype=np.uint64)
    for i in range(k):
        cb = np.concatenate([cb, cb ^ np.uint64(rows[i])])
    return cb


_POP8 = np.array([bin(i).count("1") for i in range(256)], dtype=np.uint8)


def popcount64(a: np.ndarray) -> np.ndarray:
    a = np.ascontiguousarray(a.astype(np.uint64))
    b = a.view(np.uint8).reshape(a.shape + (8,))
    return _POP8[b].sum(axis=-1).astype(np.int64)


def weight_distribution(rows: list, n: int) -> list:
    """Weight distribution A_0..A_n by enumeration (k <= ~24), chunked."""
    k = len(rows)
    if k == 0:
        return [1] + [0] * n
    lo = min(k, 16)
    base = codebook(rows[:lo])
    dist = np.zeros(n + 1, dtype=np.int64)
    hi_rows = rows[lo:]
    for h in range(1 << len(hi_rows)):
        off = 0
        i = 0
        t = h
        while t:
            if t & 1:
                off ^= hi_rows[i]
            t >>= 1
            i += 1
        w = popcount64(base ^ np.uint64(off))
        dist += np.bincount(w, minlength=n + 1)
    return [int(x) for x in dist]


def macwilliams(dual_dist: list, n: int, kdual: int) -> list:
    """Weight distribution of C from that of its dual (dimension kdual), exact integers."""
    out = []
    for j in range(n + 1):
        s = 0
        for i, b in enumerate(dual_dist):
            if b == 0:
                continue
            # Krawtchouk K_j(i)
            kj = sum((-1) ** l * comb(i, l) * comb(n - i, j - l) for l in range(0, j + 1))
            s += b * kj
        q, r = divmod(s, 1 << kdual)
        assert r == 0, "MacWilliams transform is not integral: inconsistent dual"
        out.append(q)
    return out


def min_distance_from_dist(dist: list):
    for w in range(1, len(dist)):
        if dist[w]:
            return w
    return None


def true_min_distance(rows: list, n: int, max_enum: int = 22):
    """Exact minimum distance of the row space. Uses enumeration (k<=max_enum) and/or MacWilliams
    through the dual (n-k<=max_enum); when both apply on small codes both are computed and must agree."""
    red, piv = rref(rows, n)
    k = len(red)
    if k == 0:
        return None
    d1 = d2 = None
    if k <= max_enum:
        d1 = min_distance_from_dist(weight_distribution(red, n))
    if n - k <= max_enum and (d1 is None or (k <= 12 and n - k <= 12)):
        dual = null_space(red, n)
        dd = weight_distribution(dual, n)
        d2 = min_distance_from_dist(macwilliams(dd, n, n - k))
    if d1 is not None and d2 is not None:
        assert d1 == d2, f"reference disagreement: enumeration {d1} vs MacWilliams {d2}"
    return d1 if d1 is not None else d2


def min_distance_to_code(cb: np.ndarray, words: np.ndarray) -> np.ndarray:
    """for each word: min Hamming distance to the codebook (brute force, chunked)."""
    out = np.empty(len(words), dtype=np.int64)
    step = max(1, (1 << 22) // max(1, len(cb)))
    for s in range(0, len(words), step):
        w = words[s:s + step].astype(np.uint64)
        out[s:s + step] = popcount64(w[:, None] ^ cb[None, :]).min(axis=1)
    return out


def selfcheck():
    # Hamming(7,4) from H with columns 1..7
    H = [sum(((c >> i) & 1) << (c - 1) for c in range(1, 8)) for i in range(3)]
    G = null_space(H, 7)
    assert len(G) == 4 and all(mat_vec(H, g) == 0 for g in G)
    assert weight_distribution(G, 7) == [1, 0, 0, 7, 7, 0, 0, 1]
    assert macwilliams(weight_distribution(H, 7), 7, 3) == [1, 0, 0, 7, 7, 0, 0, 1]
    assert true_min_distance(G, 7) == 3 and true_min_distance(H, 7) == 4
    # Golay(23,12) from g = 0b101011100011 : weights 1,253,506,1288,1288,506,253,1
    g = 0b101011100011
    rows = [g << i for i in range(12)]
    wd = weight_distribution(rows, 23)
    assert wd[0] == 1 and wd[7] == 253 and wd[8] == 506 and wd[11] == 1288 and wd[12] == 1288 and wd[23] == 1 and sum(wd) == 4096
    assert true_min_distance(rows, 23) == 7
    cb = codebook(G)
    assert len(set(cb.tolist())) == 16
    assert min_distance_to_code(cb, np.arange(128, dtype=np.uint64)).max() == 1  # perfect code
    assert rank([0b011, 0b101, 0b110], 3) == 2
    assert in_rowspace(0b110, *rref([0b011, 0b101], 3)) and not in_rowspace(0b111, *rref([0b011, 0b101], 3))
