"""C15 — one LLR polarity everywhere: positive = bit 0, negative = bit 1."""
from __future__ import annotations

import itertools

import numpy as np

from .. import modcat as mc
from ..core import Unit, quiet

PROPERTY = "C15"
RULE = ("every pair (LLR producer, LLR consumer): producers = every soft demodulator (scheme x order x labelling x normalisation) at noise variances 1e-3..1e3 "
        "fed with the noiselessly modulated bits, plus synthetic LLR = +-mag for mag in 1e-3..1e3; consumers = Fixed/Adaptive(mean,median,otsu)/LLR/MinDistance/"
        "Hysteresis/Weighted/Dynamic/Ensemble thresholders in LLR mode, RepetitionSoftBitDecoder(LLR), llr_to_bits, sign_to_bin(sign), and BP/min-sum/Wagner/SC/"
        "polar-BP/soft-RM decoders (bits = a codeword, output = message). Bit sequences: all sequences of <= 8 bits for the synthetic and BPSK producers, seeded "
        "sequences of 2..24 symbols otherwise, each containing both bit values. Non-trivial: distinct (producer, consumer) pair with both bit values present.")
ASSUMPTIONS = ["data-dependent thresholders (Adaptive, Dynamic) decide polarity only when the threshold provably separates the two clusters: they are paired with LLR streams of "
               "constant magnitude (or |LLR|>=0.25 for Dynamic, whose threshold stays in (0.45,0.55)); Otsu additionally needs the lower cluster below its histogram-bin centre "
               "(bin resolution 1/256); cases outside are counted as skipped, never failed",
               "Hysteresis is used with thresholds 0.5/0.5 (any magnitude) and with its defaults 0.6/0.4 for |LLR|>=0.5, state reset before each case",
               "decoders receive LLRs of magnitude >= 0.05 after clipping to +-30 (float32 tanh/atanh saturate beyond; all signs are right so saturation cannot flip a decision)"]
CHK = "c15:check_case"

MAGS = (1e-3, 1e-2, 0.1, 0.5, 1.0, 5.0, 50.0, 1e3)
NVS = (1e-3, 1e-2, 0.1, 1.0, 10.0, 100.0, 1e3)


# ----------------------------------------------------------------------------- producers

def produce(s, bits, nv, mod=None, dem=None, layout="batch"):
    """bits: 1-D 0/1 array -> LLR array aligned with bits (same length). layout: symbols passed as (1, N) or as a plain 1-D tensor."""
    import torch
    if s["scheme"] == "synthetic":
        return (1 - 2 * bits.astype(np.float64)) * s["mag"]
    if mod is None:
        mod, dem = mc.build(s)
    b = mc.bits_per_symbol(s)
    k = mc.kind(s)
    n = len(bits)
    pad = (-n) % b
    x = np.concatenate([bits, np.zeros(pad)])
    nsym = len(x) // b
    if k == "differential":
        x = np.concatenate([np.zeros(b), x])
    if k == "offset":
        x = np.concatenate([x, np.zeros(2)])
    mc.reset(mod, dem)
    y = mod(torch.from_numpy(x.astype(np.float32)).unsqueeze(0))
    if layout == "1d":
        y = y.reshape(-1)
    out = dem(y, noise_var=float(nv)).detach().numpy().reshape(-1).astype(np.float64)
    if k == "offset":
        i_llr = out[0::2][:nsym]
        q_llr = out[3::2][:nsym]
        out = np.stack([i_llr, q_llr], axis=1).reshape(-1)
    return out[:n]


def producer_list(tier):
    ps = [{"scheme": "synthetic", "mag": m} for m in MAGS]
    for s in mc.all_schemes():
        if s["scheme"] == "identity":
            continue
        for nv in NVS:
            ps.append({**s, "noise_var": nv})
    return ps


# ----------------------------------------------------------------------------- consumers

def thresholder_consumers():
    """name -> (factory, precondition(llr, bits) -> bool)"""
    from kaira.models.binary import soft_bit_thresholding as T
    from kaira.models.fec.utils import llr_to_bits, sign_to_bin
    import torch
    L = T.InputType.LLR

    def const_mag(llr, bits):
        a = np.abs(llr)
        return a.min() > 0 and a.max() / a.min() < 1.001

    def otsu_ok(llr, bits):
        if not const_mag(llr, bits):
            return False
        m = float(np.abs(llr).mean())
        lo = 1 / (1 + np.exp(m))  # lower cluster in probability space
        hi = 1 - lo
        w = 1 / 256
        bl, bh = int(lo / w), min(255, int(hi / w))
        return bh > bl and lo < (bl + 0.5) * w - 1e-6

    def always(llr, bits):
        return True

    def run(th):
        return lambda llr: th(torch.from_numpy(llr.astype(np.float32))).numpy()

    cons = {
        "fixed_llr_0": (lambda: run(T.FixedThresholder(threshold=0.0, input_type=L)), always),
        "adaptive_mean": (lambda: run(T.AdaptiveThresholder(method="mean", input_type=L)), const_mag),
        "adaptive_median": (lambda: run(T.AdaptiveThresholder(method="median", input_type=L)), lambda l, b: const_mag(l, b) and abs(b.mean() - 0.5) < 1e-9),
        "adaptive_otsu": (lambda: run(T.AdaptiveThresholder(method="otsu", input_type=L)), otsu_ok),
        "llr_thresholder": (lambda: run(T.LLRThresholder()), always),
        "llr_thresholder_scaled": (lambda: run(T.LLRThresholder(confidence_scaling=3.0)), always),
        "min_distance_llr": (lambda: run(T.MinDistanceThresholder(input_type=L)), always),
        # custom reference points, symmetric about 0 (so the nearest point's sign is the LLR's sign) but listed in any order
        "min_distance_llr_refs_pos_first": (lambda: run(T.MinDistanceThresholder(reference_points=torch.tensor([4.0, -4.0]), input_type=L)), always),
        "min_distance_llr_refs_4_unsorted": (lambda: run(T.MinDistanceThresholder(reference_points=torch.tensor([6.0, 2.0, -2.0, -6.0]), input_type=L)), always),
        "min_distance_llr_refs_4_mixed": (lambda: run(T.MinDistanceThresholder(reference_points=torch.tensor([-2.0, 6.0, -6.0, 2.0]), input_type=L)), always),
        "hysteresis_0.5": (lambda: run(T.HysteresisThresholder(high_threshold=0.5, low_threshold=0.5, input_type=L)), always),
        "hysteresis_default": (lambda: run(T.HysteresisThresholder(input_type=L)), lambda l, b: np.abs(l).min() >= 0.5),
        "weighted_1": (lambda: run(T.WeightedThresholder(weights=1.0, input_type=L)), always),
        # per-position weights (list and tensor forms) take another branch than the scalar weight
        "weighted_vector_list": (lambda: (lambda llr: T.WeightedThresholder(weights=[1.0] * llr.shape[-1], input_type=L)(torch.from_numpy(llr.astype(np.float32))).numpy()), always),
        "weighted_vector_tensor": (lambda: (lambda llr: T.WeightedThresholder(weights=torch.ones(llr.shape[-1]), input_type=L)(torch.from_numpy(llr.astype(np.float32))).numpy()), always),
        "ensemble_weighted": (lambda: run(T.SoftBitEnsembleThresholder([T.LLRThresholder(), T.WeightedThresholder(weights=1.0, input_type=L), T.MinDistanceThresholder(input_type=L)],
                                                                       voting="weighted", weights=[1.0, 2.0, 1.0])), always),
        "ensemble_any": (lambda: run(T.SoftBitEnsembleThresholder([T.LLRThresholder(), T.MinDistanceThresholder(input_type=L)], voting="any")), always),
        "ensemble_all": (lambda: run(T.SoftBitEnsembleThresholder([T.LLRThresholder(), T.MinDistanceThresholder(input_type=L)], voting="all")), always),
        "llr_thresholder_soft_out": (lambda: (lambda llr: (T.LLRThresholder(output_type=T.OutputType.SOFT)(torch.from_numpy(llr.astype(np.float32))).numpy() > 0.5).astype(np.float32)), always),
        "dynamic": (lambda: run(T.DynamicThresholder(input_type=L)), lambda l, b: const_mag(l, b) or np.abs(l).min() >= 0.25),
        "ensemble_majority": (lambda: run(T.SoftBitEnsembleThresholder([T.LLRThresholder(), T.WeightedThresholder(weights=1.0, input_type=L),
                                                                         T.HysteresisThresholder(high_threshold=0.5, low_threshold=0.5, input_type=L)])), always),
        "llr_to_bits": (lambda: (lambda llr: llr_to_bits(torch.from_numpy(llr.astype(np.float32))).numpy()), always),
        "sign_to_bin": (lambda: (lambda llr: sign_to_bin(torch.sign(torch.from_numpy(llr.astype(np.float32)))).numpy()), always),
    }
    return cons


def decoder_consumers():
    """name -> factory returning (encoder, decode(llr_batch (1,n)) -> message bits)"""
    import torch
    import kaira.models.fec.decoders as D
    import kaira.models.fec.encoders as E

    H = torch.tensor([[1, 1, 0, 1, 1, 0, 0], [1, 0, 1, 1, 0, 1, 0], [0, 1, 1, 1, 0, 0, 1]], dtype=torch.int64)

    def ldpc():
        return E.LDPCCodeEncoder(check_matrix=H)

    def mk(encf, decf):
        def factory():
            with quiet():
                enc = encf()
                dec = decf(enc)
            return enc, lambda llr: dec(torch.from_numpy(llr.astype(np.float32)).reshape(1, -1)).detach().numpy().reshape(-1)
        return factory

    Gmix = torch.tensor([[1, 1, 0, 1, 0, 0, 1], [0, 1, 1, 1, 1, 0, 0], [1, 1, 1, 0, 0, 1, 0], [1, 0, 1, 1, 0, 0, 0]], dtype=torch.float32)  # row-mixed Hamming(7,4): no unit columns for some bits

    return {
        "bp_nonsystematic": mk(lambda: E.LinearBlockCodeEncoder(generator_matrix=Gmix), lambda e: D.BeliefPropagationDecoder(e, bp_iters=10)),
        "min_sum_nonsystematic": mk(lambda: E.LinearBlockCodeEncoder(generator_matrix=Gmix), lambda e: D.MinSumLDPCDecoder(e, bp_iters=10)),
        "bp_rm": mk(lambda: E.ReedMullerCodeEncoder(1, 3), lambda e: D.BeliefPropagationDecoder(e, bp_iters=10)),
        "bp_ldpc": mk(ldpc, lambda e: D.BeliefPropagationDecoder(e, bp_iters=10)),
        "bp_hamming": mk(lambda: E.HammingCodeEncoder(mu=3), lambda e: D.BeliefPropagationDecoder(e, bp_iters=10)),
        "min_sum_ldpc": mk(ldpc, lambda e: D.MinSumLDPCDecoder(e, bp_iters=10)),
        "wagner_spc": mk(lambda: E.SingleParityCheckCodeEncoder(dimension=5), lambda e: D.WagnerSoftDecisionDecoder(e)),
        "sc_polar": mk(lambda: E.PolarCodeEncoder(4, 8), lambda e: D.SuccessiveCancellationDecoder(e)),
        "sc_polar_minsum": mk(lambda: E.PolarCodeEncoder(4, 8), lambda e: D.SuccessiveCancellationDecoder(e, regime="min_sum")),
        "bp_polar": mk(lambda: E.PolarCodeEncoder(4, 8), lambda e: D.BeliefPropagationPolarDecoder(e)),
        "rm_soft": mk(lambda: E.ReedMullerCodeEncoder(1, 3), lambda e: D.ReedMullerDecoder(e, input_type="soft")),
        # larger sizes and the bit-reversal option (recursions behave differently once sub-blocks exceed length 4)
        "sc_polar_interleaved_16": mk(lambda: E.PolarCodeEncoder(8, 16, polar_i=True), lambda e: D.SuccessiveCancellationDecoder(e)),
        "sc_polar_interleaved_32_minsum": mk(lambda: E.PolarCodeEncoder(16, 32, polar_i=True, frozen_zeros=False), lambda e: D.SuccessiveCancellationDecoder(e, regime="min_sum")),
        "sc_polar_32": mk(lambda: E.PolarCodeEncoder(16, 32), lambda e: D.SuccessiveCancellationDecoder(e)),
        "bp_polar_32": mk(lambda: E.PolarCodeEncoder(16, 32), lambda e: D.BeliefPropagationPolarDecoder(e)),
        "rm_soft_2_4": mk(lambda: E.ReedMullerCodeEncoder(2, 4), lambda e: D.ReedMullerDecoder(e, input_type="soft")),
    }


REPETITION_CONSUMERS = ["repetition_llr", "repetition_llr_sum", "repetition_llr_median", "repetition_llr_max", "repetition_llr_min",
                        "repetition_llr_thr_mindist", "repetition_llr_thr_hysteresis", "repetition_llr_thr_weighted", "repetition_llr_thr_llr"]

# ----------------------------------------------------------------------------- checks

def prod_cell(p):
    c = {k: v for k, v in p.items() if k not in ("noise_var", "mag")}
    return c


def check_pair(ctx, prod, cname, bits, kind="thresholder", cons=None, mod=None, dem=None, layout="batch"):
    """bits: 1-D array containing both values."""
    import torch
    cell = {"producer": prod["scheme"], **{k: v for k, v in prod_cell(prod).items() if k != "scheme"}, "consumer": cname}
    if layout != "batch":
        cell["layout"] = layout
    case = {"producer": prod, "consumer": cname, "bits": bits.astype(int).tolist(), "kind": kind, "layout": layout}
    if kind == "thresholder":
        factory, pre = cons[cname]
        lay = case.get("layout", "batch")
        ok, llr = ctx.call(lambda: produce(prod, bits, prod.get("noise_var"), mod, dem, lay), "C15.producer_raises", cell, case, checker=CHK)
        if not ok:
            return
        if not pre(llr, bits):
            ctx.cls("skipped_precondition_" + cname)
            return
        ok, out = ctx.call(lambda: factory()(llr), "C15.consumer_raises", cell, case, checker=CHK)
        if not ok:
            return
        out = np.asarray(out).reshape(-1)
        ctx.nontrivial(prod_cell(prod), cname)
        ctx.cls("pairs_thresholder")
        good = out.shape == bits.shape and np.array_equal(np.rint(out).astype(int), bits.astype(int))
        ctx.check(good, "C15.a_pair", cell, case, {"decided": np.rint(out).astype(int).tolist()[:32], "llr": [float(v) for v in llr[:8]]}, bits.astype(int).tolist()[:32],
                  "LLR consumer does not reproduce the bits behind the producer's noise-free LLRs (polarity)", CHK)
    elif kind == "repetition":
        from kaira.models.binary import soft_bit_thresholding as T
        rep = np.repeat(bits, 3)
        ok, llr = ctx.call(lambda: produce(prod, rep, prod.get("noise_var"), mod, dem), "C15.producer_raises", cell, case, checker=CHK)
        if not ok:
            return
        L_ = T.InputType.LLR
        thr = {"mindist": lambda: T.MinDistanceThresholder(input_type=L_), "hysteresis": lambda: T.HysteresisThresholder(high_threshold=0.5, low_threshold=0.5, input_type=L_),
               "weighted": lambda: T.WeightedThresholder(weights=1.0, input_type=L_), "llr": lambda: T.LLRThresholder()}
        opt = cname[len("repetition_llr"):].strip("_")
        kw = {}
        if opt in ("sum", "median", "max", "min"):
            kw["soft_combine_method"] = opt
        elif opt.startswith("thr_"):
            kw["thresholder"] = thr[opt[4:]]()
        dec = T.RepetitionSoftBitDecoder(repetition_factor=3, input_type=T.InputType.LLR, **kw)
        ok, out = ctx.call(lambda: dec(torch.from_numpy(llr.astype(np.float32)).reshape(1, -1)).numpy().reshape(-1), "C15.consumer_raises", cell, case, checker=CHK)
        if not ok:
            return
        ctx.nontrivial(prod_cell(prod), cname)
        ctx.cls("pairs_repetition")
        ctx.check(np.array_equal(np.rint(out).astype(int), bits.astype(int)), "C15.a_pair", cell, case, np.rint(out).astype(int).tolist()[:32], bits.astype(int).tolist()[:32],
                  "repetition soft-bit decoder (LLR mode) does not reproduce the bits", CHK)
    else:  # decoder: bits is a message
        enc, dec = cons[cname]()
        with quiet():
            cw = enc(torch.from_numpy(bits.astype(np.float32)).reshape(1, -1)).detach().numpy().reshape(-1)
        ok, llr = ctx.call(lambda: produce(prod, cw, prod.get("noise_var"), mod, dem), "C15.producer_raises", cell, case, checker=CHK)
        if not ok:
            return
        llr = np.clip(llr, -30, 30)
        if np.abs(llr).min() < 0.05:
            ctx.cls("skipped_small_llr_decoder")
            return
        with quiet():
            ok, out = ctx.call(lambda: dec(llr), "C15.consumer_raises", cell, case, checker=CHK)
        if not ok:
            return
        ctx.nontrivial(prod_cell(prod), cname)
        ctx.cls("pairs_decoder")
        good = out.shape == bits.shape and np.array_equal(np.rint(out).astype(int), bits.astype(int))
        ctx.check(good, "C15.a_pair", cell, case, np.rint(out).astype(int).tolist(), bits.astype(int).tolist(),
                  "soft-input decoder does not return the message behind the producer's noise-free LLRs (polarity)", CHK)


def check_case(ctx, cell, case):
    prod = case["producer"]
    bits = np.asarray(case["bits"], dtype=np.float64)
    kind = case.get("kind", "thresholder")
    cons = decoder_consumers() if kind == "decoder" else thresholder_consumers()
    check_pair(ctx, prod, case["consumer"], bits, kind, cons, layout=case.get("layout", "batch"))


def sequences(prod, rng, tier, short_exhaustive):
    b = 1 if prod["scheme"] == "synthetic" else mc.bits_per_symbol(prod)
    out = []
    if short_exhaustive:
        for L in range(2, 9):
            for t in itertools.product([0, 1], repeat=L):
                if 0 < sum(t) < L:
                    out.append(np.array(t, dtype=np.float64))
    n = 6 if tier == "thorough" else 3
    slow = prod["scheme"] == "psk"
    for i in range(n):
        nsym = int(rng.randint(2, 9 if slow else 25))
        L = nsym * b
        bits = (rng.rand(L) < 0.5).astype(np.float64)
        if i == 0:  # balanced
            L += L % 2
            bits = np.concatenate([np.zeros(L // 2), np.ones(L // 2)])
            rng.shuffle(bits)
        if bits.min() == bits.max():
            bits[0] = 1 - bits[0]
        out.append(bits)
    return out


def unit_producers(ctx, producers):
    cons = thresholder_consumers()
    dcons = decoder_consumers()
    rng = np.random.RandomState(ctx.seed + 17)
    for prod in producers:
        mod = dem = None
        if prod["scheme"] != "synthetic":
            mod, dem = mc.build({k: v for k, v in prod.items() if k != "noise_var"})
        short = prod["scheme"] in ("synthetic", "bpsk") and (prod.get("mag", 0) == 1.0 or prod.get("noise_var") == 1.0)
        for bits in sequences(prod, rng, ctx.tier, short):
            for cname in cons:
                check_pair(ctx, prod, cname, bits, "thresholder", cons, mod, dem)
            for rname in REPETITION_CONSUMERS:
                check_pair(ctx, prod, rname, bits, "repetition", None, mod, dem)
            # the same symbols as a plain 1-D tensor (demodulators have separate unbatched code paths)
            if prod["scheme"] != "synthetic" and len(bits) >= 10:
                for cname in ("llr_thresholder", "llr_to_bits", "hysteresis_0.5"):
                    check_pair(ctx, prod, cname, bits, "thresholder", cons, mod, dem, layout="1d")
        for cname in dcons:
            enc, _ = dcons[cname]()
            k = enc.code_dimension
            for _ in range(2 if ctx.tier == "quick" else 6):
                msg = (rng.rand(k) < 0.5).astype(np.float64)
                if msg.min() == msg.max():
                    msg[0] = 1 - msg[0]
                check_pair(ctx, prod, cname, msg, "decoder", dcons, mod, dem)
        if len(ctx.samples) < 2:
            ctx.sample({"producer": prod, "consumers": list(cons) + REPETITION_CONSUMERS + list(dcons)})


def unit_conversions(ctx):
    """(b) LLRThresholder(soft) == sigmoid(-LLR), monotone; (c) llr_to_bits(+x)=0, (-x)=1."""
    import torch
    from kaira.models.binary import soft_bit_thresholding as T
    from kaira.models.fec.utils import llr_to_bits
    x = np.concatenate([-np.logspace(3, -3, 400), [0.0], np.logspace(-3, 3, 400)])
    t = torch.from_numpy(x.astype(np.float32))
    cell = {"producer": "grid", "consumer": "llr_thresholder_soft"}
    out = T.LLRThresholder(output_type=T.OutputType.SOFT)(t).numpy().astype(np.float64)
    ref = 1 / (1 + np.exp(x))
    ctx.ev(len(x))
    ctx.nontrivial("conv", 1)
    ctx.nontrivial("conv", 2)
    bad = np.abs(out - ref) > 1e-6
    if bad.any():
        i = int(np.argmax(bad))
        ctx.fail("C15.b_sigmoid", cell, {"llr": float(x[i])}, float(out[i]), float(ref[i]), "LLR-to-probability conversion is not P(bit=1)=sigmoid(-LLR)", "c15:unit_conversions_replay")
    ctx.check(bool(np.all(np.diff(out) <= 1e-7)), "C15.b_monotone", cell, {"grid": "sorted"}, None, "non-increasing in LLR", checker="c15:unit_conversions_replay")
    pos = llr_to_bits(torch.from_numpy(np.logspace(-3, 3, 200).astype(np.float32))).numpy()
    neg = llr_to_bits(torch.from_numpy(-np.logspace(-3, 3, 200).astype(np.float32))).numpy()
    ctx.check(bool(np.all(pos == 0) and np.all(neg == 1)), "C15.c_llr_to_bits", {"producer": "grid", "consumer": "llr_to_bits"}, {"grid": "logspace"}, None, "+x -> 0, -x -> 1",
              checker="c15:unit_conversions_replay")
    ctx.sample({"grid": "800 LLR values in +-[1e-3,1e3]", "check": "sigmoid(-LLR), monotone, llr_to_bits"})


def unit_conversions_replay(ctx, cell, case):
    unit_conversions(ctx)


def units(tier, seed):
    ps = producer_list(tier)
    us = []
    groups = {}
    for p in ps:
        key = "_".join(f"{k}{v}" for k, v in p.items() if k not in ("noise_var", "mag"))
        groups.setdefault(key, []).append(p)
    for key, g in groups.items():
        w = 10 if g[0]["scheme"] == "psk" else 2
        us.append(Unit("prod_" + key, "c15:unit_producers", {"producers": g}, w * (1 + g[0].get("order", 2) / 16)))
    us.append(Unit("conversions", "c15:unit_conversions", {}, 1))
    return us
