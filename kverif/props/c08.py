"""C08 — power / amplitude / PAPR constraints hold on every batch item."""
from __future__ import annotations

import numpy as np
from hypothesis import strategies as st

from ..core import Unit
from ..hyp import draw_cases

PROPERTY = "C08"
RULE = ("Hypothesis-generated cases (constraint type, target over 1e-2..1e3, real/complex, shape among 1-D, (1,L), (B,L), (B,C,T), (B,C,H,W), signal family among Gaussian, "
        "uniform, OFDM-like (IFFT of QPSK), heavy-tailed Student-t, constant, sign-alternating, input scale 1e-2..1e4, zero items mixed into batches) for TotalPower, "
        "AveragePower, PerAntennaPower (uniform and budget vector), PeakAmplitude, PAPR, CompositeConstraint, create_ofdm_constraints, create_mimo_constraints, "
        "apply_constraint_chain, combine_constraints. Every batch item is judged separately. Non-trivial: item power differs from the target by >10% before the constraint "
        "(or a sample above the amplitude / PAPR limit). Distinct = (constraint, parameters, shape, family, seed, item).")
ASSUMPTIONS = ["dimension 0 is the batch when the tensor has >1 dimensions and >1 rows (documented in the constraints); 1-D and (1,L) tensors are one item",
               "power clauses (b)-(e) apply to items with input power >= 1e-4 per the property ('inputs of non-negligible power'); float32 tolerance 1e-3 on power, 1e-4 on ratios",
               "PAPR limit is demanded on the non-sparse family the property states (>= 1/4 of the samples within 20 dB of the peak) on which it is attainable by clipping (N / #nonzero samples <= limit), with relative slack 1e-4",
               "factory composites: limits are upper limits; feasibility N.A^2 >= P and PAPR limit >= 1 is required of generated configurations",
               "per-antenna power is the mean squared magnitude over the dimensions after (batch, antenna), as documented; inputs have >= 3 dimensions"]
CHK = "c08:check_case"

FAMILIES = ("gaussian", "uniform", "ofdm", "student_t", "constant", "alternating", "unequal_rows")


def gen_signal(shape, family, cplx, scale, rng):
    n = int(np.prod(shape))

    def base(sz):
        if family == "gaussian":
            return rng.randn(*sz)
        if family == "uniform":
            return rng.uniform(-1, 1, size=sz)
        if family == "student_t":
            return rng.standard_t(3, size=sz)
        if family == "constant":
            return np.ones(sz) * 0.7
        if family == "alternating":
            return np.where(np.arange(int(np.prod(sz))).reshape(sz) % 2 == 0, 1.0, -1.0) * 0.9
        if family == "unequal_rows":
            # constant-envelope rows (last axis) with very different amplitudes: every row has PAPR 1, the item does not
            a = np.where(np.arange(int(np.prod(sz))).reshape(sz) % 2 == 0, 1.0, -1.0)
            gains = rng.choice([0.2, 1.0, 1.0, 3.0], size=sz[:-1] + (1,)) if len(sz) > 1 else np.ones(1)
            return a * gains
        raise ValueError
    if family == "ofdm":
        q = (rng.choice([-1, 1], size=shape) + 1j * rng.choice([-1, 1], size=shape)) / np.sqrt(2)
        t = np.fft.ifft(q, axis=-1) * np.sqrt(shape[-1])
        a = t if cplx else t.real * np.sqrt(2)
    else:
        a = base(shape) + (1j * base(shape) if cplx else 0)
    return a * scale


def to_t(a):
    import torch
    return torch.from_numpy(a.astype(np.complex64 if np.iscomplexobj(a) else np.float32))


def items_of(a):
    """split into batch items per the documented rule."""
    if a.ndim > 1 and a.shape[0] > 1:
        return [a[i] for i in range(a.shape[0])]
    return [a]


def pw(a, kind):
    p = np.abs(a.astype(np.complex128 if np.iscomplexobj(a) else np.float64)) ** 2
    return float(p.sum() if kind == "total" else p.mean())


def build(case):
    import torch
    import kaira.constraints as K
    from kaira.constraints import utils as U
    c = case["constraint"]
    if c == "total":
        return K.TotalPowerConstraint(case["target"])
    if c == "average":
        return K.AveragePowerConstraint(case["target"])
    if c == "per_antenna_uniform":
        return K.PerAntennaPowerConstraint(uniform_power=case["target"])
    if c == "per_antenna_budget":
        return K.PerAntennaPowerConstraint(power_budget=torch.tensor(case["budget"], dtype=torch.float32))
    if c == "peak":
        return K.PeakAmplitudeConstraint(case["target"])
    if c == "papr":
        return K.PAPRConstraint(max_papr=case["target"])
    raise ValueError(c)


def check_power_constraint(ctx, cell, case, x):
    import torch
    c = case["constraint"]
    kind = "total" if c == "total" else "average"
    target = case["target"]
    con = build(case)
    ok, out = ctx.call(lambda: con(to_t(x)), "C08.raises", cell, case, checker=CHK)
    if not ok:
        return
    o = out.numpy()
    if not ctx.check(o.shape == x.shape, "C08.shape", cell, case, list(o.shape), list(x.shape), checker=CHK):
        return
    for i, (xi, oi) in enumerate(zip(items_of(x), items_of(o))):
        pin, pout = pw(xi, kind), pw(oi, kind)
        icase = {**case, "item": i}
        ctx.ev()
        if abs(pin / target - 1) > 0.1:
            ctx.nontrivial(cell, case.get("seed"), case.get("shape"), case.get("family"), target, i)
        nonzero = pw(xi, "total") > 0
        if nonzero:
            ctx.check(pout <= target * (1 + 1e-4) + 1e-12, "C08.a_never_more", cell, icase, pout, target, "item power exceeds the target", CHK)
        if pw(xi, "average") >= 1e-4:
            ctx.check(abs(pout / target - 1) <= 1e-3, "C08.b_target_power", cell, icase, {"power": pout, "ratio": pout / target}, target, "item power differs from the target by more than 0.1%", CHK)
            # (c) positive real factor
            xi64 = xi.astype(np.complex128).reshape(-1)
            oi64 = oi.astype(np.complex128).reshape(-1)
            big = np.abs(xi64) > 1e-3 * np.abs(xi64).max()
            r = oi64[big] / xi64[big]
            s = float(np.real(r).mean())
            ok_c = s > 0 and np.max(np.abs(r - s)) <= 1e-4 * s
            ctx.check(bool(ok_c), "C08.c_positive_real_factor", cell, icase, {"mean_ratio": s, "max_dev": float(np.max(np.abs(r - s)))}, "out = s.x with s>0 real", "output is not the input times one positive real factor", CHK)
    # (d) idempotence, (e) scale invariance (items with non-negligible power)
    if min(pw(xi, "average") for xi in items_of(x)) >= 1e-4:
        o2 = con(out).numpy()
        ctx.check(np.allclose(o2, o, rtol=2e-4, atol=1e-6 * np.abs(o).max()), "C08.d_idempotent", cell, case, float(np.max(np.abs(o2 - o))), 0.0, "constraint is not idempotent", CHK)
        for a in (1e-2, 3.0, 1e3):
            # every *item* must stay in the non-negligible range after rescaling (the constraints add 1e-8 to the power)
            if min(pw(xi, "average") for xi in items_of(x)) * a * a < 1e-4 or np.abs(x).max() * a > 1e6:
                continue
            oa = con(to_t(x * a)).numpy()
            ctx.check(np.allclose(oa, o, rtol=3e-4, atol=1e-6 * np.abs(o).max()), "C08.e_scale_invariant", cell, {**case, "a": a}, float(np.max(np.abs(oa - o))), 0.0, "output changes when the input is rescaled", CHK)


def check_per_antenna(ctx, cell, case, x):
    import torch
    con = build(case)
    ok, out = ctx.call(lambda: con(to_t(x)), "C08.raises", cell, case, checker=CHK)
    if not ok:
        return
    o = out.numpy()
    if not ctx.check(o.shape == x.shape, "C08.shape", cell, case, list(o.shape), list(x.shape), checker=CHK):
        return
    B, A = x.shape[0], x.shape[1]
    tg = case["budget"] if case["constraint"] == "per_antenna_budget" else [case["target"]] * A
    for b in range(B):
        for a in range(A):
            pin, pout = pw(x[b, a], "average"), pw(o[b, a], "average")
            icase = {**case, "item": [b, a]}
            ctx.ev()
            if abs(pin / tg[a] - 1) > 0.1:
                ctx.nontrivial(cell, case.get("seed"), case.get("shape"), case.get("family"), b, a)
            if pin > 0:
                ctx.check(pout <= tg[a] * (1 + 1e-4), "C08.a_never_more", cell, icase, pout, tg[a], "antenna power exceeds its budget", CHK)
            if pin >= 1e-4:
                ctx.check(abs(pout / tg[a] - 1) <= 1e-3, "C08.b_target_power", cell, icase, {"power": pout, "ratio": pout / tg[a]}, tg[a], "antenna power differs from its budget by more than 0.1%", CHK)
                xi, oi = x[b, a].astype(np.complex128).reshape(-1), o[b, a].astype(np.complex128).reshape(-1)
                big = np.abs(xi) > 1e-3 * np.abs(xi).max()
                r = oi[big] / xi[big]
                s = float(np.real(r).mean())
                ctx.check(bool(s > 0 and np.max(np.abs(r - s)) <= 1e-4 * s), "C08.c_positive_real_factor", cell, icase, s, "s>0 real", checker=CHK)
    if min(pw(x[b, a], "average") for b in range(B) for a in range(A)) >= 1e-4:
        o2 = con(out).numpy()
        ctx.check(np.allclose(o2, o, rtol=2e-4, atol=1e-6 * np.abs(o).max()), "C08.d_idempotent", cell, case, float(np.max(np.abs(o2 - o))), 0.0, checker=CHK)
        oa = con(to_t(x * 3.0)).numpy()
        ctx.check(np.allclose(oa, o, rtol=3e-4, atol=1e-6 * np.abs(o).max()), "C08.e_scale_invariant", cell, {**case, "a": 3.0}, float(np.max(np.abs(oa - o))), 0.0, checker=CHK)


def papr_of(a):
    p = np.abs(a.astype(np.complex128 if np.iscomplexobj(a) else np.float64)) ** 2
    return float(p.max() / p.mean()) if p.mean() > 0 else float("inf")


def nonsparse(a):
    m = np.abs(a).reshape(-1)
    return m.max() > 0 and np.mean(m >= 0.1 * m.max()) >= 0.25


def attainable(a, limit):
    """Clipping at level c gives PAPR(c) = c^2 / mean(min(|x|,c)^2), which decreases to N / #nonzero as c -> 0:
    the limit is attainable by clipping iff N / #nonzero < limit (the property's stated domain)."""
    m = np.abs(a).reshape(-1).astype(np.float64)
    nz = int((m > 1e-9 * m.max()).sum())
    if not (nz > 0 and m.size / nz <= limit * (1 - 1e-6)):
        return False
    # the clipped signal that meets the limit must itself have non-negligible power: the constraint adds 1e-8 to
    # average powers, so a signal that has to be clipped down to ~1e-8 is in the 'negligible power' regime
    lo, hi = 0.0, float(m.max())
    for _ in range(60):
        c = (lo + hi) / 2
        p = np.minimum(m, c) ** 2
        if c * c / p.mean() > limit:
            hi = c
        else:
            lo = c
    return float((np.minimum(m, lo) ** 2).mean()) >= 1e-5


def check_peak(ctx, cell, case, x):
    import torch
    con = build(case)
    if np.iscomplexobj(x):
        ctx.ev()
        try:
            out = con(to_t(x))
            # a returned tensor is only acceptable if it respects the limit in magnitude
            ctx.check(float(out.abs().max()) <= case["target"] * (1 + 1e-6), "C08.f_peak_complex", cell, case, float(out.abs().max()), case["target"], "complex input not rejected and the magnitude limit is not met", CHK)
        except Exception:
            ctx.cls("peak_complex_rejected")
        return
    out = con(to_t(x)).numpy()
    A = case["target"]
    ctx.ev()
    if np.abs(x).max() > A:
        ctx.nontrivial(cell, case.get("seed"), case.get("shape"), case.get("family"))
    ctx.check(float(np.abs(out).max()) <= A * (1 + 1e-6), "C08.f_peak_limit", cell, case, float(np.abs(out).max()), A, "a sample exceeds the amplitude limit", CHK)
    inside = np.abs(x.astype(np.float32)) <= A
    ctx.check(bool(np.all(out[inside] == x.astype(np.float32)[inside])), "C08.f_peak_untouched", cell, case, None, None, "samples inside the limit were changed", CHK)


def check_papr(ctx, cell, case, x):
    con = build(case)
    ok, out = ctx.call(lambda: con(to_t(x)), "C08.raises", cell, case, checker=CHK)
    if not ok:
        return
    o = out.numpy()
    if not ctx.check(o.shape == x.shape, "C08.shape", cell, case, list(o.shape), list(x.shape), checker=CHK):
        return
    for i, (xi, oi) in enumerate(zip(items_of(x), items_of(o))):
        if not nonsparse(xi) or pw(xi, "average") < 1e-8:
            ctx.cls("papr_sparse_or_negligible_items_skipped")
            continue
        if not attainable(xi, case["target"]):
            ctx.cls("papr_limit_unattainable_by_clipping_skipped")
            continue
        ctx.ev()
        if papr_of(xi) > case["target"]:
            ctx.nontrivial(cell, case.get("seed"), case.get("shape"), case.get("family"), i)
        ctx.check(papr_of(oi) <= case["target"] * (1 + 1e-4), "C08.g_papr_limit", cell, {**case, "item": i}, papr_of(oi), case["target"], "output PAPR exceeds the limit", CHK)


def check_composite(ctx, cell, case, x):
    import torch
    import kaira.constraints as K
    from kaira.constraints import utils as U
    parts = [build(p) for p in case["parts"]]
    xt = to_t(x)
    seq = xt
    for p in parts:
        seq = p(seq)
    cell = dict(cell)
    for name, fn in (("CompositeConstraint", lambda: K.CompositeConstraint(parts)(xt)), ("combine_constraints", lambda: U.combine_constraints(parts)(xt)),
                     ("apply_constraint_chain", lambda: U.apply_constraint_chain(parts, xt))):
        ok, out = ctx.call(fn, "C08.raises", {**cell, "api": name}, case, checker=CHK)
        if ok:
            ctx.ev()
            ctx.check(torch.equal(out, seq), "C08.h_composite_sequential", {**cell, "api": name}, case, float((out - seq).abs().max()), 0.0, "composite differs from sequential application of its parts", CHK)
    # one composite object used, extended with add_constraint, used again (and nested in an outer composite): after every step it
    # must equal sequential application of the parts it holds at that moment
    def seq_of(ps, t):
        for p in ps:
            t = p(t)
        return t
    for split in sorted({1, max(1, len(parts) // 2)}):
        if split >= len(parts):
            continue
        def history():
            comp = K.CompositeConstraint(parts[:split])
            outer = K.CompositeConstraint([comp])
            res = [(comp(xt), seq_of(parts[:split], xt)), (outer(xt), seq_of(parts[:split], xt))]
            for j in range(split, len(parts)):
                comp.add_constraint(parts[j])
                res.append((comp(xt), seq_of(parts[:j + 1], xt)))
                res.append((outer(xt), seq_of(parts[:j + 1], xt)))
            return res
        ok, res = ctx.call(history, "C08.raises", {**cell, "api": "add_constraint_history"}, {**case, "split": split}, checker=CHK)
        if ok:
            ctx.ev(len(res))
            bad = [i for i, (a, b) in enumerate(res) if not torch.equal(a, b)]
            ctx.check(not bad, "C08.h_composite_sequential", {**cell, "api": "add_constraint_history"}, {**case, "split": split}, {"first_step_that_differs": bad[:1]}, "equal at every step",
                      "a composite used, then extended with add_constraint, differs from sequential application of its current parts", CHK)
    ctx.nontrivial(cell, case.get("seed"), str(case["parts"]))


def check_factory(ctx, cell, case, x):
    from kaira.constraints import utils as U
    kind = case["factory"]
    if kind == "ofdm":
        con = U.create_ofdm_constraints(total_power=case["total_power"], max_papr=case["max_papr"], is_complex=np.iscomplexobj(x), peak_amplitude=case.get("peak_amplitude"))
    else:
        con = U.create_mimo_constraints(num_antennas=x.shape[1], uniform_power=case.get("uniform_power"), max_papr=case.get("max_papr"), total_power=case.get("total_power"))
    ok, out = ctx.call(lambda: con(to_t(x)), "C08.raises", cell, case, checker=CHK)
    if not ok:
        return
    o = out.numpy()
    ctx.nontrivial(cell, case.get("seed"), str({k: v for k, v in case.items() if k not in ("seed",)}))
    for i, (xi, oi) in enumerate(zip(items_of(x), items_of(o))):
        if pw(xi, "average") < 1e-4:
            continue
        icase = {**case, "item": i}
        ctx.ev()
        if case.get("total_power") is not None:
            ctx.check(pw(oi, "total") <= case["total_power"] * (1 + 1e-3), "C08.i_factory_total_power", cell, icase, pw(oi, "total"), case["total_power"], "factory composite: total power limit exceeded", CHK)
        if case.get("peak_amplitude") is not None:
            ctx.check(float(np.abs(oi).max()) <= case["peak_amplitude"] * (1 + 1e-4), "C08.i_factory_peak_amplitude", cell, icase, float(np.abs(oi).max()), case["peak_amplitude"],
                      "factory composite: amplitude limit exceeded", CHK)
        if case.get("max_papr") is not None and nonsparse(xi) and attainable(xi, case["max_papr"]):
            ctx.check(papr_of(oi) <= case["max_papr"] * (1 + 1e-3), "C08.i_factory_papr", cell, icase, papr_of(oi), case["max_papr"], "factory composite: PAPR limit exceeded", CHK)
        if case.get("uniform_power") is not None:
            for a in range(oi.shape[0]):
                ctx.check(pw(oi[a], "average") <= case["uniform_power"] * (1 + 1e-3), "C08.i_factory_per_antenna", cell, icase, pw(oi[a], "average"), case["uniform_power"],
                          "factory composite: per-antenna power limit exceeded", CHK)


def regenerate(case):
    rng = np.random.RandomState(case["seed"])
    x = gen_signal(tuple(case["shape"]), case["family"], case["complex"], case["scale"], rng)
    if case.get("mixed_scales") and x.ndim > 1 and x.shape[0] > 1:
        # batch items of very different strength in ONE call (amplitude factors 1e-2 .. 1e4 relative to each other)
        g = 10.0 ** rng.choice([-2.0, 0.0, 2.0, 4.0], size=x.shape[0])
        g = g / g.max() * max(1.0, 1e4 / max(case["scale"], 1.0)) if case["scale"] * g.max() > 1e6 else g
        x = x * g.reshape((-1,) + (1,) * (x.ndim - 1))
    for z in case.get("zero_items", []):
        if x.ndim > 1 and z < x.shape[0]:
            x[z] = 0
    return x


def check_case(ctx, cell, case):
    x = regenerate(case)
    if "constraint" in case and not (case["constraint"] == "peak" and case["complex"] and False):
        try:
            xt = to_t(x)
            xb = xt.clone()
            build(case)(xt)
            import torch as _t
            ctx.check(bool(_t.equal(xt, xb)), "C08.input_unmodified", {"constraint": case["constraint"], "dtype": "complex" if case["complex"] else "real"}, case, None, None,
                      "constraint modified its input tensor", CHK)
        except Exception:
            pass
        if x.ndim >= 2:
            # the same values as a dense but NON-CONTIGUOUS tensor (a permuted view of a buffer stored in reversed axis order): same result
            import torch as _t
            perm = tuple(reversed(range(x.ndim)))
            xnc = to_t(np.ascontiguousarray(x.transpose(perm))).permute(*perm)
            try:
                ref = build(case)(to_t(x))
                got = build(case)(xnc)
            except Exception:
                got = None
            if got is not None:
                ctx.ev()
                ctx.check(got.shape == ref.shape and bool(_t.allclose(got, ref, rtol=1e-5, atol=1e-7 * float(ref.abs().max()))), "C08.k_noncontiguous_input",
                          {"constraint": case["constraint"], "dtype": "complex" if case["complex"] else "real", "layout": "permuted_view"}, case, None, None,
                          "a non-contiguous view of the same values is constrained differently from the contiguous tensor", CHK)
    c = case.get("constraint") or ("composite" if "parts" in case else "factory_" + case["factory"])
    cell = cell or {"constraint": c, "dtype": "complex" if case["complex"] else "real", "layout": f"{len(case['shape'])}d" + ("_b1" if case["shape"][0] == 1 and len(case["shape"]) > 1 else ""), "family": case["family"]}
    if "parts" in case:
        check_composite(ctx, cell, case, x)
    elif "factory" in case:
        check_factory(ctx, cell, case, x)
    elif c in ("total", "average"):
        check_power_constraint(ctx, cell, case, x)
    elif c.startswith("per_antenna"):
        check_per_antenna(ctx, cell, case, x)
    elif c == "peak":
        check_peak(ctx, cell, case, x)
    elif c == "papr":
        check_papr(ctx, cell, case, x)
    ctx.cls("cases_" + c)
    if len(ctx.samples) < 2:
        ctx.sample({k: v for k, v in case.items()})


SHAPES = st.one_of(st.tuples(st.integers(2, 64)), st.tuples(st.just(1), st.integers(2, 64)), st.tuples(st.integers(2, 6), st.integers(2, 64)),
                   st.tuples(st.integers(2, 4), st.integers(1, 3), st.integers(2, 32)), st.tuples(st.integers(2, 3), st.integers(1, 3), st.integers(2, 6), st.integers(2, 6)))
ANT_SHAPES = st.one_of(st.tuples(st.integers(1, 4), st.integers(1, 4), st.integers(2, 32)), st.tuples(st.integers(1, 3), st.integers(1, 4), st.integers(2, 6), st.integers(2, 6)))
TARGET = st.sampled_from([1e-4, 1e-3, 1e-2, 0.1, 0.5, 1.0, 4.0, 30.0, 1e3, 1e4, 1e6])
SCALE = st.sampled_from([1e-2, 0.1, 1.0, 7.0, 1e2, 1e4])


def unit_generated(ctx, kind, n):
    common = dict(family=st.sampled_from(FAMILIES), complex=st.booleans(), scale=SCALE, seed=st.integers(0, 10 ** 6), mixed_scales=st.booleans())
    if kind in ("total", "average"):
        strat = st.fixed_dictionaries({**common, "constraint": st.just(kind), "target": TARGET, "shape": SHAPES.map(list), "zero_items": st.lists(st.integers(0, 5), max_size=2)})
    elif kind == "per_antenna":
        strat = st.fixed_dictionaries({**common, "constraint": st.sampled_from(["per_antenna_uniform", "per_antenna_budget"]), "target": TARGET, "shape": ANT_SHAPES.map(list)})
    elif kind == "peak":
        strat = st.fixed_dictionaries({**common, "constraint": st.just("peak"), "target": st.sampled_from([0.05, 0.5, 1.0, 3.0, 50.0]), "shape": SHAPES.map(list)})
    elif kind == "papr":
        strat = st.fixed_dictionaries({**common, "constraint": st.just("papr"), "target": st.sampled_from([1.5, 2.0, 3.0, 4.0, 6.0, 10.0]), "shape": SHAPES.map(list)})
    elif kind == "composite":
        part = st.one_of(st.fixed_dictionaries({"constraint": st.sampled_from(["total", "average"]), "target": TARGET}),
                         st.fixed_dictionaries({"constraint": st.just("papr"), "target": st.sampled_from([2.0, 4.0, 6.0])}))
        strat = st.fixed_dictionaries({**common, "parts": st.lists(part, min_size=1, max_size=4), "shape": SHAPES.map(list)})
    elif kind == "factory_ofdm":
        strat = st.fixed_dictionaries({**common, "factory": st.just("ofdm"), "total_power": st.sampled_from([0.5, 1.0, 4.0, 16.0]), "max_papr": st.sampled_from([2.0, 4.0, 6.0]),
                                       "peak_mult": st.sampled_from([None, 1.0, 1.5, 3.0]), "shape": st.one_of(st.tuples(st.integers(16, 64)), st.tuples(st.integers(2, 4), st.integers(16, 64))).map(list)})
    else:
        strat = st.fixed_dictionaries({**common, "factory": st.just("mimo"), "pw": st.sampled_from([0.25, 1.0, 4.0]), "use_total": st.booleans(), "max_papr": st.sampled_from([None, 3.0, 6.0]),
                                       "shape": st.tuples(st.integers(1, 3), st.integers(1, 4), st.integers(16, 48)).map(list)})

    def f(case):
        case = dict(case)
        if case.get("constraint") == "per_antenna_budget":
            A = case["shape"][1]
            case["budget"] = [case["target"] * (1 + 0.5 * a) for a in range(A)]
        if case.get("constraint") == "peak" and case["complex"]:
            pass
        if kind == "factory_ofdm":
            n_el = case["shape"][-1]
            pm = case.pop("peak_mult")
            # feasible amplitude: N.A^2 >= P  <=>  A >= sqrt(P/N); use multiples of that bound
            case["peak_amplitude"] = None if pm is None else float(pm * np.sqrt(case["total_power"] / n_el) * 1.0001)
        if kind == "factory_mimo":
            p = case.pop("pw")
            if case.pop("use_total"):
                case["total_power"] = p
            else:
                case["uniform_power"] = p
        check_case(ctx, None, case)
    draw_cases(strat, n, ctx.seed * 61 + len(kind), f)


def check_reuse(ctx, cell, case):
    """One constraint object applied to a sequence of inputs that differ in shape, dtype (real/complex) and scale: each result must be
    bit-identical to what a fresh object returns for that input (the per-item laws are checked on fresh objects by the other units)."""
    import torch
    from kaira.constraints import utils as U
    c = case["constraint"]
    cell = cell or {"constraint": c, "mode": "object_reuse"}

    def make():
        if c == "factory_ofdm":
            return U.create_ofdm_constraints(total_power=case["target"], max_papr=4.0, is_complex=True, peak_amplitude=None)
        if c == "composite":
            import kaira.constraints as K
            return K.CompositeConstraint([K.PAPRConstraint(max_papr=3.0), K.TotalPowerConstraint(case["target"])])
        return build(case)
    con = make()
    for i, inp in enumerate(case["inputs"]):
        x = to_t(regenerate(inp))
        ok, got = ctx.call(lambda: con(x), "C08.raises", cell, {**case, "failing_step": i}, checker="c08:check_reuse")
        if not ok:
            return
        exp = make()(x)
        ctx.ev()
        ctx.check(got.shape == exp.shape and bool(torch.equal(got, exp)), "C08.j_object_reuse", cell, {**case, "failing_step": i}, None, None,
                  "a constraint object that was used before answers differently from a fresh object with the same configuration", "c08:check_reuse")
    ctx.nontrivial("reuse", c, str(case["inputs"]))
    ctx.cls("reuse_histories")


def unit_reuse(ctx, n):
    inp = st.fixed_dictionaries({"shape": SHAPES.map(list), "family": st.sampled_from(FAMILIES), "complex": st.booleans(), "scale": SCALE, "seed": st.integers(0, 10 ** 6)})
    strat = st.fixed_dictionaries({"constraint": st.sampled_from(["total", "average", "peak", "papr", "per_antenna_uniform", "composite", "factory_ofdm"]),
                                   "target": st.sampled_from([0.5, 1.0, 4.0]), "inputs": st.lists(inp, min_size=2, max_size=5)})

    def f(case):
        case = dict(case)
        if case["constraint"] == "per_antenna_uniform":
            case["inputs"] = [{**i, "shape": ([2] + i["shape"]) if len(i["shape"]) < 3 else i["shape"]} for i in case["inputs"]]
        check_reuse(ctx, None, case)
    draw_cases(strat, n, ctx.seed * 67 + 5, f)


def unit_boundary(ctx):
    """degenerate (B, A) per-antenna input: every (item, antenna) is one sample; its power must still be the budget."""
    case = {"constraint": "per_antenna_uniform", "target": 1.0, "shape": [3, 4], "family": "gaussian", "complex": False, "scale": 2.0, "seed": 5}
    x = regenerate(case)
    import torch
    con = build(case)
    cell = {"constraint": "per_antenna_uniform", "dtype": "real", "layout": "2d_BA", "family": "gaussian"}
    ok, out = ctx.call(lambda: con(to_t(x)), "C08.raises", cell, case, checker="c08:replay_boundary")
    ctx.nontrivial("boundary", 1)
    ctx.nontrivial("boundary", 2)
    if ok:
        o = out.numpy()
        # documented input is [batch, antennas, ...]; with no trailing dimension each entry is its own antenna signal
        bad = np.abs(np.abs(o) ** 2 - 1.0) > 1e-3
        ctx.check(not bad.any(), "C08.b_target_power", cell, case, (np.abs(o) ** 2).round(4).tolist(), 1.0, "(B, A) input: antenna powers are not the budget (power averaged over the wrong dimensions)", "c08:replay_boundary")
    ctx.sample(case)


def replay_boundary(ctx, cell, case):
    unit_boundary(ctx)


def units(tier, seed):
    T = tier == "thorough"
    n = 20000 if T else 250
    us = [Unit(f"gen_{k}", "c08:unit_generated", {"kind": k, "n": n}, 4) for k in ("total", "average", "per_antenna", "peak", "papr", "composite", "factory_ofdm", "factory_mimo")]
    us.append(Unit("gen_total_2", "c08:unit_generated", {"kind": "total", "n": n}, 4))
    us.append(Unit("boundary", "c08:unit_boundary", {}, 1))
    us.append(Unit("reuse", "c08:unit_reuse", {"n": 3000 if T else 120}, 3))
    return us
