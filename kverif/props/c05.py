"""C05 — noise-free modulation followed by hard demodulation returns the transmitted bits."""
from __future__ import annotations

import itertools

import numpy as np
from hypothesis import strategies as st

from .. import modcat as mc
from ..core import Unit
from ..hyp import draw_cases

PROPERTY = "C05"
RULE = ("every scheme/order/labelling/normalisation option (also built through ModulationRegistry.create); inputs: every b-bit group (all 2^b symbols), "
        "every ordered pair of symbols (every ordered triple for schemes with memory when b<=2), Hypothesis-generated sequences of 1..64 symbols in 1-D and (B,L) "
        "layouts; modules in eval mode, state reset before each case. Non-trivial: distinct (scheme options, symbol sequence) with at least two different symbols or M>=4.")
ASSUMPTIONS = ["start-up conventions stated in the property: differential schemes return bits[b:] (reference symbol dropped); offset QPSK returns the I stream in place "
               "and the Q stream delayed by one symbol (the first Q decision is not compared)",
               "documented input overloads are respected: pi/4-QPSK treats a 1-D tensor of <=4 values <4 as symbol indices and returns symbol indices for unbatched hard "
               "demodulation (compared as indices); PSK/DPSK single-element inputs are index inputs and are never generated as bits"]
CHK = "c05:check_case"


def expected_bits(s, bits, b):
    """bits: (..., L) array -> expected demodulator output given the scheme's start-up convention, plus a mask of compared positions."""
    k = mc.kind(s)
    if k == "differential":
        return bits[..., b:], None
    if k == "offset":
        L = bits.shape[-1]
        exp = bits.copy()
        q = bits[..., 1::2]
        exp[..., 3::2] = q[..., :-1]
        mask = np.ones(L, dtype=bool)
        mask[1] = False  # first Q decision carries the (empty) state, not data
        return exp, mask
    return bits, None


def run_seq(ctx, s, mod, dem, bits, cell, via, layout, reset=True, replay=None):
    """bits: np array (L,) or (B,L)."""
    import torch
    b = mc.bits_per_symbol(s)
    if reset:
        mc.reset(mod, dem)
    x = torch.from_numpy(bits.astype(np.float32))
    case = {"scheme": s, "bits": bits.astype(int).tolist(), "via_registry": via}
    chk = CHK
    if replay is not None:
        chk, case = replay[0], {**replay[1]}
    nsym = bits.shape[-1] // b
    pi4_index_mode = s["scheme"] == "pi4qpsk" and bits.ndim == 1
    if pi4_index_mode and bits.shape[0] <= 4:
        # a 1-D input of <= 4 values < 4 is documented as symbol indices: feed indices instead of bits
        idx = (bits.reshape(-1, 2) @ np.array([2, 1])).astype(np.int64)
        x = torch.from_numpy(idx)
    ok, y = ctx.call(lambda: mod(x), "C05.modulate_raises", cell, case, checker=chk)
    if not ok:
        return
    if s["scheme"] == "identity":
        nsym = bits.shape[-1]
    if not ctx.check(y.shape[-1] == nsym and tuple(y.shape[:-1]) == tuple(bits.shape[:-1]), "C05.symbol_count", cell, case, list(y.shape), list(bits.shape[:-1]) + [nsym],
                     "number of symbols is not bits / bits_per_symbol", chk):
        return
    if mc.kind(s) == "differential" and nsym < 2:
        return
    ok, out = ctx.call(lambda: dem(y), "C05.demodulate_raises", cell, case, checker=chk)
    if not ok:
        return
    out = out.detach().numpy()
    if pi4_index_mode:
        exp = (bits.reshape(-1, 2) @ np.array([2, 1])).astype(np.int64)
        good = out.shape == exp.shape and np.array_equal(out.astype(np.int64), exp)
        ctx.check(good, "C05.roundtrip", cell, case, out.tolist(), exp.tolist(), "unbatched pi/4-QPSK demodulation does not return the transmitted symbol indices", chk)
    else:
        exp, mask = expected_bits(s, bits, b)
        if out.shape != exp.shape:
            ctx.ev()
            ctx.fail("C05.roundtrip_shape", cell, case, list(out.shape), list(exp.shape), "demodulated bit tensor has the wrong shape", chk)
            return
        diff = out != exp
        if mask is not None:
            diff = diff & mask
        ctx.check(not diff.any(), "C05.roundtrip", cell, case, out.astype(int).tolist() if out.size <= 64 else None, exp.astype(int).tolist() if exp.size <= 64 else None,
                  "hard demodulation of the noiselessly modulated symbols differs from the input bits", chk)
    ctx.nontrivial(cell, via, bits.tobytes())
    ctx.cls("layout_" + layout)
    # the same bits as int64: the same symbols
    if layout in ("batch_all", "generated_batch", "cross_instance_forward") and s["scheme"] != "identity":
        for dname, dt in (("int64", torch.int64), ("int32", torch.int32), ("uint8", torch.uint8), ("bool", torch.bool), ("float64", torch.float64)):
            mc.reset(mod, dem)
            try:
                yi = mod(torch.from_numpy(bits.astype(np.int64)).to(dt))
            except Exception:
                ctx.cls(dname + "_bits_rejected")
                continue
            ctx.ev()
            ctx.check(tuple(yi.shape) == tuple(y.shape) and bool(torch.allclose(yi.to(torch.complex128), y.to(torch.complex128), atol=1e-6)),
                      "C05.dtype_independent", cell, {**case, "dtype": dname}, None, None, f"modulating the same bits given as {dname} gives other symbols", chk)


def check_case(ctx, cell, case):
    s = case["scheme"]
    mod, dem = mc.build(s, case.get("via_registry", False))
    cell = cell or dict(s)
    bits = np.asarray(case["bits"], dtype=np.float32)
    run_seq(ctx, s, mod, dem, bits, cell, case.get("via_registry", False), "replay")


def unit_scheme(ctx, schemes, n_gen):
    for s in schemes:
        b = mc.bits_per_symbol(s)
        for via in (False, True):
            cell = dict(s)
            try:
                mod, dem = mc.build(s, via)
            except Exception as e:  # noqa: BLE001
                ctx.ev()
                ctx.fail("C05.construct", cell, {"scheme": s, "bits": [], "via_registry": via}, f"{type(e).__name__}: {str(e)[:200]}", "modulator/demodulator pair",
                         "modulator/demodulator cannot be constructed with matching options", CHK)
                continue
            G = mc.all_groups(b)
            mem = mc.kind(s) != "memoryless"
            # every single group (as one symbol; with memory: preceded/followed as needed by pairs below)
            if not mem:
                for g in G:
                    if b == 1:
                        continue  # single-element inputs are index inputs for PSK-type modulators
                    run_seq(ctx, s, mod, dem, g, cell, via, "1d_single")
                # all symbols in one sequence and as a batch of single symbols
                run_seq(ctx, s, mod, dem, G.reshape(-1), cell, via, "1d_all")
                if b > 1:
                    run_seq(ctx, s, mod, dem, G, cell, via, "batch_all")
            # every ordered pair of symbols (exhaustive), in 1-D and as a batch
            if len(G) <= 64:
                pairs = np.array([np.concatenate([a, c]) for a in G for c in G], dtype=np.float32)
                run_seq(ctx, s, mod, dem, pairs, cell, via, "batch_pairs")
                ctx.exhaustive("symbol_pairs", True)
                if mem and len(G) <= 16:
                    for p in pairs:
                        run_seq(ctx, s, mod, dem, p, cell, via, "1d_pair")
                if mem and b <= 2:
                    triples = np.array([np.concatenate(t) for t in itertools.product(G, repeat=3)], dtype=np.float32)
                    run_seq(ctx, s, mod, dem, triples, cell, via, "batch_triples")
                    for t3 in triples:
                        run_seq(ctx, s, mod, dem, t3, cell, via, "1d_triple")
            # generated sequences
            strat = st.tuples(st.integers(1, 64), st.integers(0, 4), st.integers(0, 2 ** 31 - 1))

            def f(t):
                L, B, sd = t
                rng = np.random.RandomState(sd)
                shape = (L * b,) if B == 0 else (B, L * b)
                bits = (rng.rand(*shape) < 0.5).astype(np.float32)
                if b == 1 and bits.shape[-1] == 1:
                    return
                run_seq(ctx, s, mod, dem, bits, cell, via, "generated_1d" if B == 0 else "generated_batch")
            draw_cases(strat, n_gen, ctx.seed * 977 + hash(str(sorted(s.items()))) % 1000, f)
            # long sequences (implementations that work in chunks must not lose the tail): lengths that are no multiple of a power of two
            if not via:
                rngl = np.random.RandomState(ctx.seed + 77)
                for shape, lay in (((70001 * b,), "long_1d"), ((7, 5003 * b), "long_batch"), ((3, 1031 * b), "long_batch")):
                    run_seq(ctx, s, mod, dem, (rngl.rand(*shape) < 0.5).astype(np.float32), cell, via, lay)
                    ctx.cls("long_sequences")
        if len(ctx.samples) < 3:
            ctx.sample({"scheme": s, "bits_per_symbol": b})


def replay_eval_streams(ctx, cell, case):
    unit_eval_streams(ctx, only=case["scheme"])


def unit_eval_streams(ctx, only=None):
    """Schemes with memory, evaluation mode, ONE state reset, then several round trips of odd and even lengths on the same objects without
    another reset: in evaluation mode no state is carried from call to call, so every round trip must return its bits."""
    rng = np.random.RandomState(ctx.seed + 41)
    for s in mc.all_schemes():
        if mc.kind(s) == "memoryless" or (only is not None and s != only):
            continue
        b = mc.bits_per_symbol(s)
        mod, dem = mc.build(s)
        for m in (mod, dem, getattr(dem, "modulator", None)):
            if m is not None:
                m.eval()
        mc.reset(mod, dem)
        cell = {**s, "mode": "eval_no_reset_between_calls"}
        for i, (B, L) in enumerate(((3, 7), (3, 8), (0, 5), (2, 6), (0, 3), (1, 9), (2, 4))):
            shape = (L * b,) if B == 0 else (B, L * b)
            if s["scheme"] == "pi4qpsk" and B == 0:
                continue  # 1-D inputs of pi/4-QPSK are symbol indices for short inputs: covered by run_seq's own cases
            bits = (rng.rand(*shape) < 0.5).astype(np.float32)
            run_seq(ctx, s, mod, dem, bits, cell, False, "eval_stream", reset=False, replay=("c05:replay_eval_streams", {"scheme": s, "mode": "eval_no_reset_between_calls", "failing_call": i}))
    ctx.sample({"mode": "eval_no_reset_between_calls", "lengths": [7, 8, 5, 6, 3, 9, 4]})


def unit_cross_instance(ctx, family):
    """All option combinations of one scheme family live in ONE process and are used interleaved, in both orders:
    instances must not influence each other (module- or class-level caches keyed too coarsely would)."""
    schemes = [s for s in mc.all_schemes() if s["scheme"] == family or (family == "dpsk" and s["scheme"] in ("dbpsk", "dqpsk"))]
    built = [(s, *mc.build(s)) for s in schemes]
    rng = np.random.RandomState(ctx.seed + 31)
    for order_name, seq in (("forward", built), ("reverse", built[::-1]), ("forward_again", built)):
        for s, mod, dem in seq:
            b = mc.bits_per_symbol(s)
            cell = {**s, "mode": "cross_instance"}
            bits = (rng.rand(3, 12 * b) < 0.5).astype(np.float32)
            run_seq(ctx, s, mod, dem, bits, cell, False, "cross_instance_" + order_name)
            if mc.kind(s) == "memoryless" and b > 1:
                run_seq(ctx, s, mod, dem, mc.all_groups(b).reshape(-1), cell, False, "cross_instance_" + order_name)
    ctx.sample({"family": family, "instances_in_one_process": len(built), "orders": ["forward", "reverse", "forward_again"]})


def units(tier, seed):
    T = tier == "thorough"
    sch = mc.all_schemes(extended=True)
    us = []
    for i, s in enumerate(sch):
        us.append(Unit("scheme_" + "_".join(f"{k}{v}" for k, v in s.items()), "c05:unit_scheme", {"schemes": [s], "n_gen": 1500 if T else 25},
                       4 if s.get("order", 2) >= 64 or mc.kind(s) != "memoryless" else 1))
    for fam in ("psk", "qam", "pam", "dpsk", "qpsk", "oqpsk", "pi4qpsk"):
        us.append(Unit("cross_instance_" + fam, "c05:unit_cross_instance", {"family": fam}, 2))
    us.append(Unit("eval_streams", "c05:unit_eval_streams", {}, 2))
    return us
