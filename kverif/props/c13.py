"""C13 — flat fading: block-constant, correctly normalised gains; y = h.x + n."""
from __future__ import annotations

import numpy as np
from hypothesis import strategies as st

from ..core import Unit
from ..hyp import draw_cases

PROPERTY = "C13"
RULE = ("cells (fading type, K / sigma, coherence time T, dtype, layout): Rayleigh, Rician K in {0,0.5,1,5,20,100}, log-normal sigma in {0,4,8} dB; Hypothesis-generated "
        "(L,T) incl. non-divisors and T>L; real/complex inputs; shapes 1-D, (B,L), (B,C,H,W); noise by power (incl. 0) or SNR. Exact structure on every case: "
        "y = h.x + n with supplied csi/noise, block constancy and ceil(L/T) distinct gains per item with noise power 0, shape preserved; gain statistics on N=1e6 "
        "(thorough 8e6) blocks at z=7.5 (p<6.4e-14 per test, <500 tests per run). Non-trivial: T does not divide L, or K>0, or 4-D input.")
ASSUMPTIONS = ["supplied csi / noise are broadcast against the flattened (B, L) item layout the channel documents (csi of shape (B,L), (B,1) or scalar; noise (B,L))",
               "block constancy is observed through g = y/x with noise power 0 and x without zeros (relative tolerance 1e-5)",
               "same-seed replay: the channel draws fading first and noise second, so two noise settings under one seed share h and the unit noise"]
CHK = "c13:check_exact"
Z = 7.5


def make(ftype, T, param, mode, value):
    import kaira.channels as C
    kw = {"avg_noise_power": value} if mode == "power" else {"snr_db": value}
    if ftype == "rayleigh_generic":
        # the generic constructor with the options of the OTHER fading types filled in as well (documented as used only by their own type)
        return C.FlatFadingChannel("rayleigh", coherence_time=T, k_factor=4.0, shadow_sigma_db=8.0, **kw)
    if ftype == "rician_generic":
        return C.FlatFadingChannel("rician", coherence_time=T, k_factor=param, shadow_sigma_db=8.0, **kw)
    if ftype == "rayleigh":
        return C.RayleighFadingChannel(coherence_time=T, **kw)
    if ftype == "rician":
        return C.RicianFadingChannel(k_factor=param, coherence_time=T, **kw)
    return C.LogNormalFadingChannel(shadow_sigma_db=param, coherence_time=T, **kw)


def gen_x(shape, cplx, rng):
    import torch
    a = rng.uniform(0.5, 2.0, size=shape) * np.where(rng.rand(*shape) < 0.5, -1, 1)
    if cplx:
        a = a * np.exp(1j * rng.uniform(0, 2 * np.pi, size=shape))
        return torch.from_numpy(a.astype(np.complex64))
    return torch.from_numpy(a.astype(np.float32))


def check_exact(ctx, cell, case, chan=None, chk=None, rc=None):
    import torch
    chk = chk or CHK
    rc = rc or case
    ftype, param, T, cplx, shape = case["ftype"], case.get("param"), case["T"], case["complex"], tuple(case["shape"])
    cell = cell or {"fading": ftype, "dtype": "complex" if cplx else "real", "layout": f"{len(shape)}d"}
    rng = np.random.RandomState(case.get("seed", ctx.seed))
    x = gen_x(shape, cplx, rng)
    if chan is not None:
        ch = chan
    else:
        ok, ch = ctx.call(lambda: make(ftype, T, param, "power", 0.0), "C13.construct", cell, rc, checker=chk)
        if not ok:
            return
    torch.manual_seed(case.get("seed", ctx.seed) + 5)
    x_before = x.clone()
    ok, y = ctx.call(lambda: ch(x), "C13.raises", cell, rc, checker=chk)
    if not ok:
        return
    ctx.ev()
    ctx.check(bool(torch.equal(x, x_before)), "C13.input_unmodified", cell, rc, None, None, "channel modified its input tensor", chk)
    B = shape[0] if len(shape) > 1 else 1
    L = int(np.prod(shape[1:])) if len(shape) > 1 else shape[0]
    if (L % T) or (ftype == "rician" and (param or 0) > 0) or len(shape) > 2:
        ctx.nontrivial(cell, T, shape, param)
    if not ctx.check(tuple(y.shape) == shape and y.is_complex(), "C13.c_shape", cell, rc, [list(y.shape), str(y.dtype)], [list(shape), "complex"], "output shape differs from the input shape", chk):
        return
    g = (y.reshape(B, L) / x.reshape(B, L).to(y.dtype)).numpy().astype(np.complex128)
    nblocks = -(-L // T)
    bad = None
    for b in range(B):
        for k in range(nblocks):
            seg = g[b, k * T:(k + 1) * T]
            if np.max(np.abs(seg - seg[0])) > 1e-5 * max(1.0, abs(seg[0])):
                bad = (b, k)
                break
        if bad:
            break
    ctx.check(bad is None, "C13.b_block_constant", cell, rc, {"item": bad[0], "block": bad[1]} if bad else None, "gain constant within each coherence block",
              "fading gain changes inside a coherence block", chk)
    if bad is None and nblocks >= 2 and ftype != "lognormal" or (bad is None and nblocks >= 2):
        firsts = g[:, ::T][:, :nblocks]
        distinct = min(len(set(np.round(row, 9))) for row in firsts)
        ctx.check(distinct == nblocks, "C13.b_blocks_independent_draws", cell, rc, distinct, nblocks, "fewer distinct gains per item than ceil(L/T): blocks share a coefficient", chk)
        if B >= 2:
            ctx.check(not np.allclose(firsts[0], firsts[1]), "C13.b_items_independent_draws", cell, rc, None, None, "two batch items received the same gains", chk)
    # (a) supplied csi and noise: exactly h.x + n
    if len(shape) <= 2:
        xs = x.reshape(B, L)
        h = torch.from_numpy((rng.randn(B, L) + 1j * rng.randn(B, L)).astype(np.complex64))
        n = torch.from_numpy((0.3 * (rng.randn(B, L) + 1j * rng.randn(B, L))).astype(np.complex64))
        variants = [("full", h), ("per_item", h[:, :1]), ("scalar", h[0, 0])]
        for vname, hv in variants:
            xin = x if len(shape) == 2 else x
            hh = hv if len(shape) == 2 or hv.dim() == 0 else (hv[0] if vname == "full" else hv.reshape(-1)[:1])
            nn = n if len(shape) == 2 else n[0]
            ok, yy = ctx.call(lambda: make(ftype, T, param, "snr", 10.0)(xin, csi=hh, noise=nn), "C13.a_supplied_raises", {**cell, "csi": vname}, {**rc, "csi": vname}, checker=chk)
            if not ok:
                continue
            exp = hh * xin.to(torch.complex64) + nn
            ctx.ev()
            ctx.check(tuple(yy.shape) == shape and torch.allclose(yy, exp, rtol=1e-6, atol=1e-6), "C13.a_supplied_csi_noise", {**cell, "csi": vname}, {**rc, "csi": vname},
                      float((yy - exp).abs().max()) if tuple(yy.shape) == tuple(exp.shape) else list(yy.shape), 0.0, "with supplied channel state and noise the output is not h.x + n", chk)
    ctx.cls("exact_" + ftype)
    if len(ctx.samples) < 2:
        ctx.sample({"cell": cell, "T": T, "shape": list(shape), "blocks_per_item": nblocks})


def check_reuse(ctx, cell, case):
    """One fading-channel object used for several inputs of different shape and dtype: every call must obey the block-fading law for ITS input
    (block constancy, fresh draws per block and item, output shape).  case: {ftype, param, T, steps: [{complex, shape, seed}, ...]}"""
    ftype, param, T = case["ftype"], case.get("param"), case["T"]
    ok, ch = ctx.call(lambda: make(ftype, T, param, "power", 0.0), "C13.construct", {"fading": ftype, "mode": "object_reuse"}, case, checker="c13:check_reuse")
    if not ok:
        return
    for i, stp in enumerate(case["steps"]):
        shape = stp["shape"]
        cl = {"fading": ftype, "dtype": "complex" if stp["complex"] else "real", "layout": f"{len(shape)}d", "mode": "object_reuse"}
        check_exact(ctx, cl, {"ftype": ftype, "param": param, "T": T, "complex": stp["complex"], "shape": shape, "seed": stp["seed"]}, chan=ch, chk="c13:check_reuse", rc={**case, "failing_step": i})
    ctx.cls("reuse_histories")


def unit_exact(ctx, ftype, params, n_gen):
    strat = st.tuples(st.integers(1, 40), st.integers(1, 45), st.integers(1, 4), st.booleans(), st.sampled_from(["1d", "2d", "4d"]), st.sampled_from(params), st.integers(0, 10 ** 6))

    def f(t):
        L, T, B, cplx, lay, param, sd = t
        if lay == "1d":
            shape = [L]
        elif lay == "2d":
            shape = [B, L]
        else:
            shape = [B, 2, max(1, L // 4), 2]
        check_exact(ctx, None, {"ftype": ftype, "param": param, "T": T, "complex": cplx, "shape": shape, "seed": sd})
    draw_cases(strat, n_gen, ctx.seed * 41 + len(ftype), f)
    # one object, several inputs
    stp = st.fixed_dictionaries({"complex": st.booleans(), "shape": st.one_of(st.tuples(st.integers(1, 40)), st.tuples(st.integers(1, 4), st.integers(1, 40))).map(list), "seed": st.integers(0, 10 ** 6)})
    hs = st.fixed_dictionaries({"T": st.integers(1, 12), "param": st.sampled_from(params), "steps": st.lists(stp, min_size=2, max_size=4)})
    draw_cases(hs, max(20, n_gen // 10), ctx.seed * 43 + len(ftype), lambda h: check_reuse(ctx, None, {"ftype": ftype, **h}))
    # planted: T = L, T > L, T = 1, non-divisor
    for T, L in ((7, 7), (9, 4), (1, 12), (5, 12), (4, 12)):
        for cplx in (False, True):
            check_exact(ctx, None, {"ftype": ftype, "param": params[-1], "T": T, "complex": cplx, "shape": [3, L], "seed": ctx.seed})


def check_stat(ctx, cell, case):
    import torch
    ftype, param, N = case["ftype"], case.get("param"), case["N"]
    cell = cell or {"fading": ftype, "param": param}
    rows = 1000
    cols = N // rows
    x = torch.ones(rows, cols, dtype=torch.complex64)
    T = case.get("T", 1)
    ch = make(ftype, T, param, "power", 0.0)
    torch.manual_seed(case.get("seed", ctx.seed) + 11)
    h = ch(x).numpy().astype(np.complex128)[:, ::T]
    n = h.size
    ctx.ev(n)
    ctx.nontrivial(cell, T)
    ms = float(np.mean(np.abs(h) ** 2))
    if ftype in ("rayleigh", "rician", "rayleigh_generic", "rician_generic"):
        K = 0.0 if ftype.startswith("rayleigh") else float(param)
        var2 = (1 + 2 * K) / (1 + K) ** 2
        tol = Z * np.sqrt(var2 / n) + 1e-5
        ctx.check(abs(ms - 1) <= tol, "C13.d_unit_mean_square_gain", cell, case, ms, {"expected": 1.0, "tol": tol}, "mean-square fading gain is not 1", "c13:check_stat")
        mean = h.mean()
        los = np.sqrt(K / (K + 1))
        tol_m = Z * np.sqrt(1 / (2 * (K + 1)) / n) + 1e-6
        ctx.check(abs(mean.real - los) <= tol_m and abs(mean.imag) <= tol_m, "C13.e_rician_k", cell, case, [float(mean.real), float(mean.imag)], {"los": float(los), "tol": tol_m},
                  "line-of-sight component differs from sqrt(K/(K+1)): K-factor not honoured", "c13:check_stat")
        sc = float(np.mean(np.abs(h - los) ** 2))
        tol_s = Z * np.sqrt(1.0 / n) / (K + 1) + 1e-6
        ctx.check(abs(sc - 1 / (K + 1)) <= tol_s, "C13.e_rician_k", {**cell, "part": "scattered"}, case, sc, {"expected": 1 / (K + 1), "tol": tol_s}, "scattered power differs from 1/(K+1)", "c13:check_stat")
        c = h - los
        v = 1 / (K + 1)
    else:
        c = h - h.mean()
        v = float(np.mean(np.abs(c) ** 2))
    # (f) adjacent blocks and different items uncorrelated
    for name, a, b in (("adjacent_blocks", c[:, :-1], c[:, 1:]), ("batch_items", c[:-1, :], c[1:, :])):
        prod = (a * np.conj(b)).mean()
        tol_c = Z * v * np.sqrt(0.5 / a.size) * (3.0 if ftype == "lognormal" else 1.0) + 1e-7
        ctx.check(abs(prod.real) <= tol_c and abs(prod.imag) <= tol_c, "C13.f_independent_gains", {**cell, "pair": name}, case, [float(prod.real), float(prod.imag)], tol_c,
                  "fading coefficients are correlated across " + name, "c13:check_stat")
    # (f') the same for the gain MAGNITUDES (a shared large-scale factor leaves the complex products uncorrelated but couples the powers):
    # Pearson correlation of log|h|^2 between adjacent blocks / items, ~ N(0, 1/n) under independence whatever the distribution
    lg = np.log(np.abs(h) ** 2 + 1e-300)
    for name, a, b in (("adjacent_blocks", lg[:, :-1], lg[:, 1:]), ("batch_items", lg[:-1, :], lg[1:, :])):
        if a.size < 1000:
            continue
        a0, b0 = a - a.mean(), b - b.mean()
        den = np.sqrt((a0 ** 2).mean() * (b0 ** 2).mean())
        r = float((a0 * b0).mean() / den) if den > 0 else 0.0
        tol_r = Z / np.sqrt(a.size) + 1e-6
        ctx.check(abs(r) <= tol_r or den == 0, "C13.f_independent_gains", {**cell, "pair": name, "quantity": "log_power"}, case, r, tol_r,
                  "fading gain magnitudes are correlated across " + name, "c13:check_stat")
    ctx.cls("stat_" + ftype)
    ctx.sample({"cell": cell, "N": n, "mean_square_gain": ms})


def check_noise_calibration(ctx, cell, case):
    """(g) noise relative to the *faded* signal: same-seed replays."""
    import torch
    ftype, param, T, cplx = case["ftype"], case.get("param"), case["T"], case["complex"]
    cell = cell or {"fading": ftype, "dtype": "complex" if cplx else "real", "mode": "noise_calibration"}
    rng = np.random.RandomState(case.get("seed", ctx.seed))
    x = gen_x((6, 4000), cplx, rng)
    sd = case.get("seed", ctx.seed) + 3

    def run(mode, value):
        torch.manual_seed(sd)
        return make(ftype, T, param, mode, value)(x).numpy().astype(np.complex128)
    y0 = run("power", 0.0)
    big = float(max(1.0, np.max(np.abs(y0)) ** 2))
    unit = (run("power", big) - y0) / np.sqrt(big)
    Pf = float(np.mean(np.abs(y0) ** 2))
    ctx.nontrivial(cell, T, param)
    for snr in (-10.0, 0.0, 20.0):
        n = run("snr", snr) - y0
        exp = np.sqrt(Pf / 10 ** (snr / 10)) * unit
        e = float(np.max(np.abs(n - exp)) / np.max(np.abs(exp)))
        tol = 3e-4 + 4e-7 * np.max(np.abs(y0)) / np.max(np.abs(exp))
        ctx.check(e <= tol, "C13.g_noise_on_faded_signal", cell, {**case, "snr_db": snr}, {"rel_err": e, "power_ratio": float(np.mean(np.abs(n) ** 2) / np.mean(np.abs(exp) ** 2))}, {"tol": tol},
                  "noise is not calibrated to the power of the faded signal h.x (same-seed replay)", "c13:check_noise_calibration")
    for P in (1e-2, 3.0):
        n = run("power", P) - y0
        e = float(np.max(np.abs(n - np.sqrt(P) * unit)) / (np.sqrt(P) * np.max(np.abs(unit))))
        tol = 3e-4 + 4e-7 * np.max(np.abs(y0)) / (np.sqrt(P) * np.max(np.abs(unit)))
        ctx.check(e <= tol, "C13.g_noise_power", cell, {**case, "power": P}, e, tol, "noise for power P is not sqrt(P) x unit noise", "c13:check_noise_calibration")
    pu = float(np.mean(np.abs(unit) ** 2))
    ctx.check(abs(pu - 1) <= Z * np.sqrt(1.0 / unit.size) + 1e-4, "C13.g_unit_noise_power", cell, case, pu, 1.0, "unit noise does not have unit power (re+im)", "c13:check_noise_calibration")
    ctx.cls("noise_calibration_" + ftype)


def check_param_update(ctx, cell, case):
    """The noise parameter is a public attribute (examples retune live channels through it). One object: call with P1, set avg_noise_power = P2
    (resp. snr_db), call again with the same RNG seed and the same supplied gains: the second noise is the first one scaled by sqrt(P2/P1)."""
    import torch
    ftype, param, cplx = case["ftype"], case.get("param"), case["complex"]
    cell = cell or {"fading": ftype, "dtype": "complex" if cplx else "real", "mode": "parameter_update"}
    rng = np.random.RandomState(case.get("seed", ctx.seed))
    x = gen_x((4, 64), cplx, rng)
    h = torch.from_numpy((rng.randn(4, 64) + 1j * rng.randn(4, 64)).astype(np.complex64))
    for attr, v1, v2, ratio in (("avg_noise_power", 0.01, 1.0, 10.0), ("avg_noise_power", 2.0, 0.5, 0.5), ("snr_db", 0.0, 20.0, 0.1), ("snr_db", 10.0, -10.0, 10.0)):
        ch = make(ftype, 1, param, "power" if attr == "avg_noise_power" else "snr", v1)
        rcase = {**case, "attribute": attr, "first": v1, "then": v2}

        def two():
            torch.manual_seed(99)
            n1 = ch(x, csi=h) - h * x.to(torch.complex64)
            setattr(ch, attr, v2)
            torch.manual_seed(99)
            n2 = ch(x, csi=h) - h * x.to(torch.complex64)
            return n1.numpy().astype(np.complex128), n2.numpy().astype(np.complex128)
        ok, res = ctx.call(two, "C13.raises", cell, rcase, checker="c13:check_param_update")
        if not ok:
            continue
        n1, n2 = res
        ctx.ev()
        e = float(np.max(np.abs(n2 - ratio * n1)) / max(np.max(np.abs(ratio * n1)), 1e-12))
        ctx.check(e <= 2e-3, "C13.g_noise_follows_parameter", cell, rcase, {"rel_err": e, "power_ratio": float(np.mean(np.abs(n2) ** 2) / np.mean(np.abs(n1) ** 2))}, {"expected_power_ratio": ratio ** 2},
                  "after the noise parameter of a used channel object was updated, the next call does not use the new value", "c13:check_param_update")
        ctx.nontrivial(cell, attr, v1, v2)
    ctx.cls("parameter_updates")


def unit_stat(ctx, ftype, param, N):
    check_stat(ctx, None, {"ftype": ftype, "param": param, "N": N, "seed": ctx.seed})
    check_stat(ctx, None, {"ftype": ftype, "param": param, "N": N // 4, "T": 3, "seed": ctx.seed + 1})
    for cplx in (False, True):
        for T in (1, 7):
            check_noise_calibration(ctx, None, {"ftype": ftype, "param": param, "T": T, "complex": cplx, "seed": ctx.seed})
        check_param_update(ctx, None, {"ftype": ftype, "param": param, "complex": cplx, "seed": ctx.seed})


def units(tier, seed):
    T = tier == "thorough"
    N = 8_000_000 if T else 1_000_000
    us = []
    fam = {"rayleigh": [None], "rician": [0.0, 0.5, 1.0, 5.0, 20.0, 100.0], "lognormal": [0.0, 4.0, 8.0]}
    for f, ps in fam.items():
        us.append(Unit(f"exact_{f}", "c13:unit_exact", {"ftype": f, "params": ps, "n_gen": 8000 if T else 200}, 4))
        for p in ps:
            us.append(Unit(f"stat_{f}_{p}", "c13:unit_stat", {"ftype": f, "param": p, "N": N}, 6))
    us.append(Unit("stat_rayleigh_generic", "c13:unit_stat", {"ftype": "rayleigh_generic", "param": None, "N": N}, 6))
    us.append(Unit("stat_rician_generic_5.0", "c13:unit_stat", {"ftype": "rician_generic", "param": 5.0, "N": N}, 6))
    return us
