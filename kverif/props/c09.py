"""C09 — a coded, modulated link over an ideal or bounded-error channel returns the data."""
from __future__ import annotations

from math import gcd

import numpy as np

from .. import catalogue as cat
from .. import modcat as mc
from ..core import Unit, quiet
from ..ref import gf2

PROPERTY = "C09"
RULE = ("every (code, decoder) x (modulator, demodulator) pairing whose interfaces match, assembled as ChannelCodeModel(encoder, IdentityConstraint, modulator, channel, "
        "demodulator, decoder): hard decoders (syndrome, ML, Berlekamp-Massey, RM majority) behind hard demodulation, soft decoders (BP, min-sum, Wagner, soft RM, SC, polar BP) "
        "behind soft demodulation with noise_var forwarded as a pipeline keyword; messages exhaustive for k<=6, seeded above, framed as m blocks so that code and symbol framing "
        "both divide; channels: PerfectChannel, a LambdaChannel re-modulating the codeword with <= t harness-placed bit flips per block (all single positions for n<=31, seeded "
        "multi-bit patterns), a LambdaChannel displacing every symbol by 0.49 d_min in seeded directions. Non-trivial: non-identity modulator, k>=2 and (flips>=1 or displacement>0); "
        "distinct = (code cell, decoder, modulation options, channel kind, message/pattern hash).")
ASSUMPTIONS = ["schemes with memory (differential, offset) are not paired: their demodulators return fewer bits than were modulated, so the pipeline's block framing does not match "
               "(interfaces do not match in the sense of the property); pi/4-QPSK is paired in batch layout",
               "flip clause uses t = floor((d_true-1)/2) and excludes the Reed-Solomon-style family, whose advertised capability is the recorded finding KF-C03-RS-DISTANCE",
               "soft path uses noise_var = 1.0; all LLR signs are right under both channels, so decoders must return the message (C10.a)",
               "polar encoders accept exactly one block per row; they are paired with modulations whose bits per symbol divide N",
               "reuse clause: one pipeline object carries several transmissions in a row (default training mode and eval mode); schemes with alternating constellations keep modulator and demodulator in step"]
CHK = "c09:check_pair"


def code_list(tier):
    T = tier == "thorough"
    L = [
        ({"family": "hamming", "mu": 3, "extended": False, "info": "left"}, ["syndrome", "ml", "bp", "minsum"]),
        ({"family": "hamming", "mu": 3, "extended": False, "info": "right"}, ["syndrome", "bp"]),
        ({"family": "hamming", "mu": 3, "extended": True, "info": "left"}, ["syndrome", "ml"]),
        ({"family": "hamming", "mu": 3, "extended": False, "info": [1, 2, 3, 4]}, ["syndrome", "ml", "bp"]),
        ({"family": "systematic", "P": [[1, 1, 0], [0, 1, 1], [1, 0, 1], [1, 1, 1]], "info": [3, 2, 1, 0]}, ["syndrome", "ml"]),
        ({"family": "repetition", "n": 3}, ["syndrome", "ml", "bp"]),
        ({"family": "repetition", "n": 5}, ["ml"]),
        ({"family": "spc", "k": 4}, ["wagner", "ml", "bp"]),
        ({"family": "spc", "k": 7}, ["wagner"]),
        ({"family": "rm", "r": 1, "m": 3}, ["rm_majority", "rm_soft", "ml"]),
        ({"family": "rm", "r": 1, "m": 4}, ["rm_majority", "rm_soft"]),
        ({"family": "cyclic", "n": 7, "g": 0b1011, "info": "left"}, ["syndrome", "ml"]),
        ({"family": "bch", "mu": 4, "delta": 5, "info": "left"}, ["bm", "syndrome", "bp", "minsum"]),  # check rows of equal weight are not contiguous
        ({"family": "bch", "mu": 4, "delta": 7, "info": "left"}, ["bp"]),
        ({"family": "bch", "mu": 4, "delta": 5, "info": "right"}, ["bm"]),
        ({"family": "bch", "mu": 3, "delta": 3, "info": "left"}, ["bm", "ml"]),
        ({"family": "rs", "mu": 3, "delta": 3, "info": "left"}, ["ml", "syndrome"]),
        ({"family": "systematic", "P": [[1, 1, 0], [0, 1, 1], [1, 0, 1]], "info": [4, 0, 2]}, ["syndrome", "ml", "bp"]),
        ({"family": "generic", "G": [[1, 1, 0, 1, 0], [0, 1, 1, 1, 1]]}, ["syndrome", "ml", "bp"]),
        ({"family": "ldpc", "H": [[1, 1, 0, 1, 1, 0, 0], [1, 0, 1, 1, 0, 1, 0], [0, 1, 1, 1, 0, 0, 1]]}, ["bp", "minsum", "ml"]),
        ({"family": "polar", "N": 8, "k": 4}, ["sc", "sc_minsum", "bp_polar"]),
        ({"family": "polar", "N": 16, "k": 7, "polar_i": True}, ["sc"]),
    ]
    if T:
        L += [({"family": "golay", "extended": False, "info": "left"}, ["syndrome"]), ({"family": "golay", "extended": True, "info": "right"}, ["syndrome"]),
              ({"family": "bch", "mu": 5, "delta": 7, "info": "left"}, ["bm"]), ({"family": "hamming", "mu": 4, "extended": False, "info": "left"}, ["syndrome", "bp"]),
              ({"family": "polar", "N": 64, "k": 30}, ["sc", "bp_polar"])]
    return L


SOFT = {"bp", "minsum", "wagner", "rm_soft", "sc", "sc_minsum", "bp_polar"}


def mod_list(tier):
    out = []
    for s in mc.all_schemes():
        k = mc.kind(s)
        if k in ("differential", "offset"):
            continue
        if tier != "thorough" and s["scheme"] in ("qam", "pam") and s.get("normalize") is False and s.get("order", 0) > 16:
            continue
        out.append(s)
    return out


def build_code(spec):
    import kaira.models.fec.encoders as E
    if spec["family"] == "polar":
        with quiet():
            return E.PolarCodeEncoder(spec["k"], spec["N"], polar_i=spec.get("polar_i", False), frozen_zeros=True)
    with quiet():
        return cat.build(spec)


def build_decoder(name, enc):
    import kaira.models.fec.decoders as D
    with quiet():
        return {"syndrome": lambda: D.SyndromeLookupDecoder(enc), "ml": lambda: D.BruteForceMLDecoder(enc), "bm": lambda: D.BerlekampMasseyDecoder(enc),
                "rm_majority": lambda: D.ReedMullerDecoder(enc, input_type="hard"), "rm_soft": lambda: D.ReedMullerDecoder(enc, input_type="soft"),
                "bp": lambda: D.BeliefPropagationDecoder(enc, bp_iters=10), "minsum": lambda: D.MinSumLDPCDecoder(enc, bp_iters=10), "wagner": lambda: D.WagnerSoftDecisionDecoder(enc),
                "sc": lambda: D.SuccessiveCancellationDecoder(enc), "sc_minsum": lambda: D.SuccessiveCancellationDecoder(enc, regime="min_sum"),
                "bp_polar": lambda: D.BeliefPropagationPolarDecoder(enc, bp_iters=15)}[name]()


def cell_code(spec):
    if spec["family"] == "polar":
        return {"family": "polar", "N": spec["N"], "k": spec["k"], "polar_i": spec.get("polar_i", False)}
    return cat.cell_of(spec)


class SoftDemod:
    """adapter used only to forward noise_var from the pipeline keyword to the demodulator (callable stage)."""


def check_pair(ctx, cell, case):
    import torch
    import kaira.channels as C
    from kaira.constraints.identity import IdentityConstraint
    from kaira.models.channel_code import ChannelCodeModel
    spec, dname, s, chan = case["spec"], case["decoder"], case["scheme"], case["channel"]
    cell = cell or {"code": cell_code(spec)["family"], "decoder": dname, "scheme": s["scheme"], "channel": chan, **{k: v for k, v in s.items() if k != "scheme"}}
    enc = build_code(spec)
    n, k = enc.code_length, enc.code_dimension
    b = mc.bits_per_symbol(s)
    soft = dname in SOFT
    if s["scheme"] == "identity" and soft:
        return
    if spec["family"] == "polar":
        if n % b:
            return
        m = 1
    else:
        m = b // gcd(n, b)
    ok, dec = ctx.call(lambda: build_decoder(dname, enc), "C09.construct", cell, case, checker=CHK)
    if not ok:
        return
    mod, dem = mc.build(s)
    mod2, _ = mc.build(s)
    rng = np.random.RandomState(case.get("seed", ctx.seed))
    if k * m <= 6 and case.get("n_msg", 0) <= 64:
        idx = np.arange(1 << (k * m))
        M = ((idx[:, None] >> np.arange(k * m)[None, :]) & 1).astype(np.float32)
    else:
        M = (rng.rand(case.get("n_msg", 24), k * m) < 0.5).astype(np.float32)
        M[0] = 0
    if "message" in case:
        M = np.asarray([case["message"]], dtype=np.float32)
    # reference codewords (computed outside the pipeline)
    with quiet():
        CW = enc(torch.from_numpy(M)).detach().numpy()
    nsym = CW.shape[1] // b if s["scheme"] != "identity" else CW.shape[1]
    flips_used = 0
    if chan == "perfect":
        channel = C.PerfectChannel()
    elif chan == "flips":
        rows = gf2.rows_from_matrix(enc(torch.eye(k)).detach().numpy())
        d_true = gf2.true_min_distance(rows, n)
        t = (d_true - 1) // 2
        if t < 1:
            ctx.cls("flip_t0_skipped")
            return
        E = np.zeros_like(CW)
        for r in range(len(CW)):
            for blk in range(m):
                # weights 0..t per block: clean blocks are mixed among corrupted ones (a decoder may treat them differently)
                w = int(rng.randint(0, t + 1)) if "flip_pos" not in case else len(case["flip_pos"])
                pos = rng.choice(n, size=w, replace=False) if "flip_pos" not in case else np.asarray(case["flip_pos"])
                if "flip_pos" not in case and n <= 31 and r < n:
                    pos = np.array([r]) if blk == (r % m) else np.array([], dtype=int)  # every single position, in one block of the row, the other blocks clean
                if len(pos):
                    E[r, blk * n + pos] = 1
        flips_used = int(E.sum())
        RX = (CW + E) % 2

        def fn(x, *a, **kw):
            mc.reset(mod2)
            return mod2(torch.from_numpy(RX.astype(np.float32))) if s["scheme"] != "identity" else torch.from_numpy(RX.astype(np.float32))
        channel = C.LambdaChannel(fn)
    else:  # displacement
        if s["scheme"] == "identity":
            return
        pts, _ = mc.induced_table(s, mod2) if s["scheme"] != "pi4qpsk" else (mod2.qpsk.numpy(), None)
        D = np.abs(pts[:, None] - pts[None, :])
        np.fill_diagonal(D, np.inf)
        dmin = D.min()
        ang = rng.uniform(0, 2 * np.pi, size=(len(M), nsym))
        disp = (0.49 * dmin * np.exp(1j * ang)).astype(np.complex64)

        def fn(x, *a, **kw):
            return x + torch.from_numpy(disp).to(x.dtype) if x.is_complex() else x + torch.from_numpy(disp.real * 0.999)
        channel = C.LambdaChannel(fn)
    mc.reset(mod, dem)
    model = ChannelCodeModel(enc, IdentityConstraint(), mod, channel, dem, dec)
    x = torch.from_numpy(M.copy())
    with quiet():
        ok, out = ctx.call(lambda: model(x, noise_var=1.0) if soft else model(x), "C09.raises", cell, {**case, "flips": flips_used}, checker=CHK)
    if not ok:
        return
    out = out[0] if isinstance(out, tuple) else out
    out = out.detach().numpy()
    ctx.ev(len(M))
    if s["scheme"] != "identity" and k >= 2 and chan != "perfect":
        ctx.nontrivial(cell, hash(M.tobytes()), flips_used)
    if out.shape != M.shape:
        ctx.fail("C09.shape", cell, case, list(out.shape), list(M.shape), "pipeline output does not have the message's shape", CHK)
        return
    bad = np.nonzero((np.rint(out) != M).any(axis=1))[0]
    if len(bad):
        i = int(bad[0])
        extra = {"message": M[i].astype(int).tolist()}
        if chan == "flips":
            extra["flip_pos"] = np.nonzero(E[i][:n])[0].tolist()
        ctx.fail("C09.link", cell, {**case, **extra}, np.rint(out[i]).astype(int).tolist(), M[i].astype(int).tolist(),
                 "the coded, modulated link does not return the transmitted message over this channel", CHK)
        ctx.fail_total += len(bad) - 1
    if soft and positional_ok([enc, mod, channel, dem, dec]):
        # the pipeline documents that extra positional arguments are handed to every step: the demodulator's noise variance given
        # positionally must produce the same transmission as the keyword form
        mc.reset(mod, dem)
        with quiet():
            ok, out2 = ctx.call(lambda: model(x, 1.0), "C09.raises", {**cell, "call_style": "positional"}, {**case, "flips": flips_used, "call_style": "positional"}, checker=CHK)
        if ok:
            out2 = (out2[0] if isinstance(out2, tuple) else out2).detach().numpy()
            ctx.ev(len(M))
            ctx.cls("call_style_positional")
            ctx.check(out2.shape == M.shape and np.array_equal(np.rint(out2), M), "C09.link", {**cell, "call_style": "positional"}, {**case, "call_style": "positional"}, None, None,
                      "the link does not return the message when the demodulator's noise variance is passed as the pipeline's positional argument", CHK)
    ctx.cls("pipelines_" + chan)
    ctx.cls("path_" + ("soft" if soft else "hard"))
    if len(ctx.samples) < 2:
        ctx.sample({"cell": cell, "messages": int(len(M)), "blocks_per_message": m, "symbols": int(nsym)})


def positional_ok(steps):
    """True when a second positional pipeline argument means 'noise_var' (or is ignored) for every step, judged from the forward signatures:
    e.g. the SC decoder's second positional parameter is return_for_loss, so the positional style is not a valid call for links that use it."""
    import inspect
    for st_ in steps:
        fwd = getattr(st_, "forward", st_)
        ps = [p for p in inspect.signature(fwd).parameters.values()]
        if len(ps) < 2:
            return False
        p2 = ps[1]
        if p2.kind == inspect.Parameter.VAR_POSITIONAL or p2.name == "noise_var":
            continue
        return False
    return True


def check_reuse(ctx, cell, case):
    """the same pipeline object is used for several transmissions (default training mode and eval mode): every one returns its message."""
    import torch
    import kaira.channels as C
    import kaira.modulations as Mo
    from kaira.constraints.identity import IdentityConstraint
    from kaira.models.channel_code import ChannelCodeModel
    spec, dname, s, mode = case["spec"], case["decoder"], case["scheme"], case["mode"]
    cell = cell or {"code": cell_code(spec)["family"], "decoder": dname, "scheme": s["scheme"], "channel": "perfect_reused", "mode": mode, **{k: v for k, v in s.items() if k != "scheme"}}
    enc = build_code(spec)
    n, k = enc.code_length, enc.code_dimension
    b = mc.bits_per_symbol(s)
    dec = build_decoder(dname, enc)
    soft = dname in SOFT
    rng = np.random.RandomState(case.get("seed", ctx.seed))
    mod, dem = mc.build(s)
    if mode == "train":
        mod.train()
        dem.train()
        if hasattr(dem, "modulator"):
            dem.modulator.train()
    mc.reset(mod, dem)
    model = ChannelCodeModel(enc, IdentityConstraint(), mod, C.PerfectChannel(), dem, dec)
    if mode == "train":
        model.train()
    else:
        model.eval()
    for call_no, m in enumerate(case["blocks"]):
        if (m * n) % b:
            continue
        M = (rng.rand(3, k * m) < 0.5).astype(np.float32)
        x = torch.from_numpy(M.copy())
        with quiet():
            ok, out = ctx.call(lambda: model(x, noise_var=1.0) if soft else model(x), "C09.raises", cell, {**case, "call": call_no}, checker="c09:check_reuse")
        if not ok:
            return
        out = (out[0] if isinstance(out, tuple) else out).detach().numpy()
        ctx.ev()
        ctx.nontrivial(cell, call_no, m, case.get("seed"))
        if out.shape != M.shape or not np.array_equal(np.rint(out), M):
            ctx.fail("C09.link_reused_model", cell, {**case, "call": call_no}, None, None, f"transmission #{call_no + 1} through the same pipeline object does not return its message", "c09:check_reuse")
            return
    ctx.cls("pipelines_reused_" + mode)


def unit_reuse(ctx):
    codes = [({"family": "hamming", "mu": 3, "extended": False, "info": "left"}, "syndrome"), ({"family": "hamming", "mu": 3, "extended": False, "info": "left"}, "bp"),
             ({"family": "repetition", "n": 3}, "ml"), ({"family": "bch", "mu": 4, "delta": 5, "info": "left"}, "bm"), ({"family": "spc", "k": 4}, "wagner")]
    schemes = [s for s in mc.all_schemes() if mc.kind(s) in ("memoryless", "alternating") and s["scheme"] != "identity" and s.get("order", 4) <= 16 and s.get("normalize", True)]
    for spec, dname in codes:
        for s in schemes:
            for mode in ("train", "eval"):
                for blocks in ([2, 2, 2], [2, 4, 2, 6], [6, 2, 2]):
                    check_reuse(ctx, None, {"spec": spec, "decoder": dname, "scheme": s, "mode": mode, "blocks": blocks, "seed": ctx.seed})
    ctx.sample({"reuse": "3-4 consecutive transmissions per model object, train and eval mode, block counts giving odd and even symbol counts"})


def unit_codes(ctx, entries, schemes):
    for spec, decs in entries:
        for dname in decs:
            for s in schemes:
                for chan in ("perfect", "flips", "displacement"):
                    if chan == "flips" and (dname in SOFT or spec["family"] == "rs"):
                        if spec["family"] == "rs":
                            ctx.cls("excluded_known_rs_flips")
                        continue
                    if ctx.elapsed() > (1500 if ctx.tier == "thorough" else 90):
                        ctx.budget_hit = True
                        ctx.cls("pipelines_not_reached_time_budget")
                        continue
                    check_pair(ctx, None, {"spec": spec, "decoder": dname, "scheme": s, "channel": chan, "seed": ctx.seed, "n_msg": 40 if ctx.tier == "thorough" else 12})


def unit_large_batch(ctx, schemes):
    """A few links with many messages in ONE pipeline call (701 rows: several thousand symbols, no multiple of a power of two):
    components that work in chunks must not lose the tail of a large call."""
    pairs = [({"family": "hamming", "mu": 3, "extended": False, "info": "left"}, "syndrome"), ({"family": "repetition", "n": 3}, "ml"), ({"family": "spc", "k": 4}, "wagner")]
    for spec, dname in pairs:
        for s in schemes:
            for chan in ("perfect", "displacement"):
                check_pair(ctx, {"code": spec["family"], "decoder": dname, "scheme": s["scheme"], "channel": chan, "batch": "large", **{k: v for k, v in s.items() if k != "scheme"}},
                           {"spec": spec, "decoder": dname, "scheme": s, "channel": chan, "seed": ctx.seed + 3, "n_msg": 701})
    ctx.cls("large_batch_units")


def unit_cross_instance(ctx):
    """Two different codes of the same encoder class and the same (n, k) get their decoders in ONE process, used alternately in both orders:
    tables shared between decoder instances (keyed by class and size instead of by code) would hand one code the other's codebook."""
    groups = [
        ([{"family": "cyclic", "n": 7, "g": 0b1011, "info": "left"}, {"family": "cyclic", "n": 7, "g": 0b1101, "info": "left"}], ["ml", "syndrome"]),
        ([{"family": "generic", "G": [[1, 1, 0, 1, 0, 0], [0, 1, 1, 0, 1, 0], [1, 0, 1, 0, 0, 1]]}, {"family": "generic", "G": [[1, 1, 1, 0, 0, 0], [0, 0, 1, 1, 1, 0], [1, 0, 0, 0, 1, 1]]}], ["ml", "syndrome", "bp"]),
        ([{"family": "systematic", "P": [[1, 1, 0], [0, 1, 1], [1, 0, 1], [1, 1, 1]], "info": "left"}, {"family": "systematic", "P": [[1, 0, 1], [1, 1, 1], [0, 1, 1], [1, 1, 0]], "info": "left"},
          {"family": "systematic", "P": [[1, 1, 0], [0, 1, 1], [1, 0, 1], [1, 1, 1]], "info": "right"}], ["ml", "syndrome", "bp", "minsum"]),
        ([{"family": "hamming", "mu": 3, "extended": False, "info": "left"}, {"family": "hamming", "mu": 3, "extended": False, "info": "right"}], ["ml", "syndrome", "bp"]),
        ([{"family": "bch", "mu": 4, "delta": 5, "info": "left"}, {"family": "bch", "mu": 4, "delta": 5, "info": "right"}], ["bm", "syndrome"]),
    ]
    bpsk = next(s for s in mc.all_schemes() if s["scheme"] == "bpsk")
    qam = next(s for s in mc.all_schemes() if s["scheme"] == "qam" and s.get("order") == 16)
    for specs, decs in groups:
        for order_name, seq in (("forward", specs), ("reverse", specs[::-1]), ("forward_again", specs)):
            for spec in seq:
                for dname in decs:
                    for s in (bpsk, qam):
                        for chan in (("perfect",) if dname in SOFT else ("perfect", "flips")):
                            check_pair(ctx, {"code": cell_code(spec)["family"], "decoder": dname, "scheme": s["scheme"], "channel": chan, "mode": "cross_instance"},
                                       {"spec": spec, "decoder": dname, "scheme": s, "channel": chan, "seed": ctx.seed + 5, "n_msg": 16})
    ctx.cls("cross_instance_groups", len(groups))


def units(tier, seed):
    codes = code_list(tier)
    mods = mod_list(tier)
    slow = [s for s in mods if s["scheme"] == "psk"]
    fast = [s for s in mods if s["scheme"] != "psk"]
    us = []
    for i, entry in enumerate(codes):
        w = 3 + 5 * ("bm" in entry[1]) + 2 * len(entry[1])
        us.append(Unit(f"code_{i:02d}_{entry[0]['family']}_fast", "c09:unit_codes", {"entries": [entry], "schemes": fast}, w))
        us.append(Unit(f"code_{i:02d}_{entry[0]['family']}_psk", "c09:unit_codes", {"entries": [entry], "schemes": slow}, w))
    us.append(Unit("reuse", "c09:unit_reuse", {}, 12))
    us.append(Unit("cross_instance", "c09:unit_cross_instance", {}, 10))
    big = [s for s in mods if s.get("order", 4) <= 64]
    for i in range(0, len(big), 8):
        us.append(Unit(f"large_batch_{i // 8:02d}", "c09:unit_large_batch", {"schemes": big[i:i + 8]}, 6))
    return us
