"""C12 — binary channels follow their transition law and never leave their alphabet."""
from __future__ import annotations

import numpy as np

from ..core import Unit

PROPERTY = "C12"
RULE = ("cells (channel, p, alphabet, dtype, shape): BSC / Z / BEC x p in {0,1e-3,0.01,0.1,0.3,0.5,0.9,0.999,1} x alphabets {0,1} and {-1,+1} (bipolar inputs contain a -1) x "
        "float32/float64/int64/bool x 1-D/2-D/4-D shapes; BEC with the default and an out-of-alphabet erasure symbol. Support invariants are checked exactly on every sample; "
        "rates on the 0s and on the 1s, lag-1..3 autocorrelation and cross-row correlation of the event indicator statistically on N=4e6 (thorough 3.2e7) symbols at z=7.5 "
        "(two-sided p<6.4e-14 per test, <1000 tests per run => per-run false-alarm bound <1e-10). Non-trivial: distinct cell with 0<p<1.")
ASSUMPTIONS = ["torch's global RNG is seeded from VERIF_SEED by the runner, so every run is a pure function of the seed", "bool inputs are 0/1 only",
               "with the default erasure symbol -1 on bipolar input an erased symbol cannot be told from a transmitted -1; there only 'changed positions carry the erasure symbol' is checked"]
CHK = "c12:check_cell"
Z = 7.5
PS = (0.0, 1e-3, 0.01, 0.1, 0.3, 0.5, 0.9, 0.999, 1.0)


def make(channel, p, erasure_symbol=None):
    import kaira.channels as C
    if channel == "bsc":
        return C.BinarySymmetricChannel(p)
    if channel == "z":
        return C.BinaryZChannel(p)
    return C.BinaryErasureChannel(p) if erasure_symbol is None else C.BinaryErasureChannel(p, erasure_symbol=erasure_symbol)


def gen_input(alphabet, dtype, shape, rng):
    import torch
    bits = (rng.rand(*shape) < 0.5)
    flat = bits.reshape(-1)
    flat[0], flat[1] = False, True
    if bits.ndim >= 2 and bits.shape[0] >= 3:
        # planted: one whole row (last axis) of ones - in the bipolar alphabet a row without any -1 (the format is a property of the tensor)
        bits[-1] = True
    x = bits.astype(np.float64)
    if alphabet == "bipolar":
        x = 2 * x - 1
    td = {"float32": torch.float32, "float64": torch.float64, "int64": torch.int64, "bool": torch.bool}[dtype]
    return torch.from_numpy(x).to(td), bits


def check_cell(ctx, cell, case, chan=None, chk=None, rc=None):
    import torch
    chk = chk or CHK
    rc = rc or case
    ch, p, alphabet, dtype = case["channel"], case["p"], case["alphabet"], case["dtype"]
    shape = tuple(case["shape"])
    es = case.get("erasure_symbol")
    if isinstance(es, str):
        es = float(es)  # "nan" / "inf" / "-inf": non-finite erasure symbols are written as strings in cases (JSON)
    cell = cell or {"channel": ch, "alphabet": alphabet, "dtype": dtype, "erasure_symbol": "default" if es is None else "custom"}
    rng = np.random.RandomState(case.get("seed", ctx.seed))
    c = chan if chan is not None else make(ch, p, es)
    if case.get("noncontiguous") and len(shape) >= 2:
        # the same kind of input as a dense but non-contiguous tensor (a transposed / permuted view)
        x, bits = gen_input(alphabet, dtype, shape[::-1], rng)
        x = x.permute(*reversed(range(len(shape))))
        cell = {**cell, "layout": "permuted_view"}
    else:
        x, bits = gen_input(alphabet, dtype, shape, rng)
    x0 = x.clone()
    ok, y = ctx.call(lambda: c(x), "C12.raises", cell, rc, checker=chk)
    if not ok:
        return
    ctx.ev(x.numel())
    if 0 < p < 1:
        ctx.nontrivial(cell, p, shape)
    ctx.check(torch.equal(x, x0), "C12.e_input_unmodified", cell, rc, None, None, "channel modified its input tensor", chk)
    ctx.check(tuple(y.shape) == shape, "C12.shape", cell, rc, list(y.shape), list(shape), checker=chk)
    yv = y.detach().to(torch.float64).numpy()
    xv = x.to(torch.float64).numpy()
    lo, hi = (-1.0, 1.0) if alphabet == "bipolar" else (0.0, 1.0)
    esym = float(-1 if es is None else es)

    def is_esym(a):
        return np.isnan(a) if np.isnan(esym) else a == esym
    allowed = {lo, hi} | ({esym} if ch == "bec" and not np.isnan(esym) else set())
    vals = set(np.unique(yv[~np.isnan(yv)] if (ch == "bec" and np.isnan(esym)) else yv).tolist())
    ctx.check(vals <= allowed, "C12.a_alphabet", cell, rc, sorted(vals)[:6], sorted(allowed), "output leaves the input alphabet (plus erasure symbol)", chk)
    changed = yv != xv
    if ch == "z":
        ctx.check(not changed[xv == lo].any(), "C12.b_z_zero_preserved", cell, rc, int(changed[xv == lo].sum()), 0, "Z-channel turned a 0 into a 1", chk)
        ctx.check(bool(np.all(yv[changed] == lo)), "C12.b_z_direction", cell, rc, None, None, checker=chk)
    if ch == "bec":
        ctx.check(bool(np.all(is_esym(yv[changed]))), "C12.c_bec_unerased_unchanged", cell, rc, None, None, "an unerased symbol differs from the input", chk)
        erased = changed if esym in (lo, hi) else is_esym(yv)
    if p == 0.0:
        ctx.check(not changed.any(), "C12.d_p0_identity", cell, rc, int(changed.sum()), 0, "probability 0 is not the identity", chk)
    if p == 1.0:
        if ch == "bsc":
            ctx.check(bool(changed.all()) and bool(np.all(yv == (lo + hi) - xv)), "C12.d_p1_extreme", cell, rc, int((~changed).sum()), 0, "BSC with p=1 does not complement every bit", chk)
        elif ch == "z":
            ctx.check(bool(np.all(yv == lo)), "C12.d_p1_extreme", cell, rc, None, None, "Z-channel with p=1 does not map every 1 to 0", chk)
        else:
            ctx.check(bool(np.all(is_esym(yv))), "C12.d_p1_extreme", cell, rc, None, None, "BEC with p=1 does not erase everything", chk)
    # statistics
    if case.get("stat") and 0 < p < 1:
        ev = changed if ch != "bec" or esym not in (lo, hi) else None
        if ch == "bec" and esym not in (lo, hi):
            ev = is_esym(yv)
        if ev is None:
            return
        is_one = xv == hi
        groups = {"on_ones": is_one, "on_zeros": ~is_one}
        for gname, g in groups.items():
            n = int(g.sum())
            if n < 1000:
                continue
            rate = float(ev[g].mean())
            target = p if not (ch == "z" and gname == "on_zeros") else 0.0
            tol = Z * np.sqrt(max(target * (1 - target), 1e-12) / n) + (0 if target else 0)
            ctx.check(abs(rate - target) <= tol if target else rate == 0.0, "C12.f_rate", {**cell, "group": gname}, {**rc, "group": gname}, {"rate": rate, "n": n}, {"p": target, "tolerance": tol},
                      "event rate differs from the configured probability", chk)
        # independence along the last axis and across rows (on the subset where the event is possible)
        e2 = ev.reshape(-1, shape[-1]).astype(np.float64)
        if ch == "z":
            e2 = None  # events only defined on ones; handled by the BSC/BEC cells
        if e2 is not None and e2.shape[1] >= 8:
            q = e2.mean()
            var = q * (1 - q)
            d = e2 - q
            for lag in (1, 2, 3):
                n = d[:, :-lag].size
                corr = float((d[:, :-lag] * d[:, lag:]).mean() / var)
                ctx.check(abs(corr) <= Z / np.sqrt(n), "C12.g_independence", {**cell, "lag": lag}, {**rc, "lag": lag}, corr, Z / np.sqrt(n), "events are correlated along the sequence", chk)
            if e2.shape[0] >= 2:
                h = e2.shape[0] // 2
                n = d[:h].size
                corr = float((d[:h] * d[h:2 * h]).mean() / var)
                ctx.check(abs(corr) <= Z / np.sqrt(n), "C12.g_independence", {**cell, "lag": "rows"}, {**rc, "lag": "rows"}, corr, Z / np.sqrt(n), "events are correlated across batch rows", chk)
        # (h) a second call gives a different realisation
        y2 = c(x).detach().to(torch.float64).numpy()
        ctx.check(bool((y2 != yv).any()), "C12.h_fresh_randomness", cell, rc, None, None, "two calls produced the identical error pattern (frozen mask)", chk)
    ctx.cls(f"cells_{ch}")
    if len(ctx.samples) < 2:
        ctx.sample({"cell": cell, "p": p, "shape": list(shape), "first_in": xv.reshape(-1)[:8].tolist(), "first_out": yv.reshape(-1)[:8].tolist()})


def check_reuse(ctx, cell, case):
    """One channel object, several calls whose inputs alternate between alphabets, dtypes and shapes: every call obeys the law for
    ITS input (the format is recognised per call). case: {channel, p, erasure_symbol, steps: [[alphabet, dtype, shape], ...], seed}"""
    ch, p, es = case["channel"], case["p"], case.get("erasure_symbol")
    c = make(ch, p, es)
    for i, (alphabet, dtype, shape) in enumerate(case["steps"]):
        sub = {"channel": ch, "p": p, "alphabet": alphabet, "dtype": dtype, "shape": list(shape), "erasure_symbol": es, "seed": case["seed"] + i}
        cl = {"channel": ch, "alphabet": alphabet, "dtype": dtype, "erasure_symbol": "default" if es is None else "custom", "mode": "object_reuse"}
        check_cell(ctx, cl, sub, chan=c, chk="c12:check_reuse", rc={**case, "failing_step": i})
    ctx.cls("reuse_histories")


def unit_reuse(ctx, channel):
    from hypothesis import strategies as st
    from ..hyp import draw_cases
    step = st.tuples(st.sampled_from(["binary", "bipolar"]), st.sampled_from(["float32", "float64", "int64"]),
                     st.sampled_from([[64], [5, 17], [2, 3, 8]]))
    strat = st.fixed_dictionaries({"p": st.sampled_from([0.0, 0.25, 0.5, 1.0]), "steps": st.lists(step, min_size=2, max_size=5), "seed": st.integers(0, 2 ** 20),
                                   "erasure_symbol": st.sampled_from([None, 2.0]) if channel == "bec" else st.none()})
    fixed = [{"p": pp, "steps": [[a1, "float32", [64]], [a2, "float32", [64]], [a1, "float32", [5, 17]]], "seed": 5, "erasure_symbol": None}
             for pp in (0.0, 0.25, 1.0) for a1, a2 in (("binary", "bipolar"), ("bipolar", "binary"))]
    for f in fixed:
        check_reuse(ctx, None, {"channel": channel, **f})
    draw_cases(strat, 300 if ctx.tier == "thorough" else 40, ctx.seed * 131 + len(channel), lambda d: check_reuse(ctx, None, {"channel": channel, **{k: (list(map(list, v)) if k == "steps" else v) for k, v in d.items()}}))


def unit_exact(ctx, channel):
    shapes = [(64,), (7, 33), (2, 3, 4, 5), (50, 2), (40, 1)]
    for p in PS:
        for alphabet in ("binary", "bipolar"):
            for dtype in ("float32", "float64", "int64", "bool"):
                if dtype == "bool" and alphabet == "bipolar":
                    continue
                for shape in shapes:
                    for es in ((None, 2.0, 0.5, "nan", "inf") if channel == "bec" else (None,)):
                        check_cell(ctx, None, {"channel": channel, "p": p, "alphabet": alphabet, "dtype": dtype, "shape": list(shape), "erasure_symbol": es, "seed": ctx.seed + len(shape)})
                        if len(shape) >= 2 and dtype == "float32":
                            check_cell(ctx, None, {"channel": channel, "p": p, "alphabet": alphabet, "dtype": dtype, "shape": list(shape), "erasure_symbol": es, "seed": ctx.seed + len(shape), "noncontiguous": True})


def unit_stat(ctx, channel, p, alphabet, n_total):
    rows = 2000
    cols = n_total // rows
    es = 2.0 if channel == "bec" else None
    check_cell(ctx, None, {"channel": channel, "p": p, "alphabet": alphabet, "dtype": "float32", "shape": [rows, cols], "erasure_symbol": es, "stat": True, "seed": ctx.seed})
    if n_total >= 1_000_000:
        r2, c2 = 400, 2500
        check_cell(ctx, None, {"channel": channel, "p": p, "alphabet": alphabet, "dtype": "float32", "shape": [r2, c2], "erasure_symbol": es, "stat": True, "seed": ctx.seed + 9, "noncontiguous": True})


def unit_extremes_large(ctx, channel, alphabet, p, chunks):
    """p = 0 and p = 1 are exact statements about every symbol: checked on 10^7 (thorough 4.10^7) symbols, so that a probability that is only
    approximately 0 or 1 (a clamp at 1e-6, say) cannot pass."""
    for c in range(chunks):
        check_cell(ctx, {"channel": channel, "alphabet": alphabet, "dtype": "float32", "erasure_symbol": "default", "mode": "extreme_large"},
                   {"channel": channel, "p": p, "alphabet": alphabet, "dtype": "float32", "shape": [500, 10000], "erasure_symbol": None, "seed": ctx.seed * 17 + c})
        ctx.nontrivial("extreme", channel, alphabet, p, c)


def units(tier, seed):
    T = tier == "thorough"
    N = 16_000_000 if T else 4_000_000  # 16 workers x ~0.7 GB; 32M symbols per unit exhausted memory when other jobs ran alongside
    us = [Unit(f"exact_{c}", "c12:unit_exact", {"channel": c}, 2) for c in ("bsc", "z", "bec")]
    us += [Unit(f"reuse_{c}", "c12:unit_reuse", {"channel": c}, 2) for c in ("bsc", "z", "bec")]
    for c in ("bsc", "z", "bec"):
        for p in (1e-3, 0.01, 0.1, 0.3, 0.5, 0.9, 0.999):
            for a in ("binary", "bipolar"):
                us.append(Unit(f"stat_{c}_{p}_{a}", "c12:unit_stat", {"channel": c, "p": p, "alphabet": a, "n_total": N}, 6))
    for c in ("bsc", "z", "bec"):
        for p in (0.0, 1.0):
            for a in (("binary", "bipolar") if c != "bec" else ("binary",)):
                us.append(Unit(f"extreme_{c}_{p}_{a}", "c12:unit_extremes_large", {"channel": c, "alphabet": a, "p": p, "chunks": 8 if T else 2}, 4))
    return us
