"""C04 — encode followed by the encoder's own inverse / extraction / projection is the identity."""
from __future__ import annotations

import numpy as np
from hypothesis import strategies as st

from .. import catalogue as cat
from ..core import Unit, canon
from ..hyp import draw_cases
from . import c01

PROPERTY = "C04"
RULE = ("cells = catalogue (all families x information sets) + Hypothesis-generated systematic/non-systematic/LDPC matrices; layouts 1-D (k,), "
        "(B,k), (B1,B2,k), (B,b.k) and (B1,B2,b.k) with Hypothesis-drawn B,b in 1..4(6); all 2^k messages in the (2^k,k) layout when k<=12; "
        "rejection of last dimensions that are not a multiple of the block size. Non-trivial: non-'left'/non-systematic cell or multi-block/3-D "
        "layout, message != 0; distinct = (cell, layout, message hash).")
ASSUMPTIONS = ["Hamming and Reed-Muller override inverse_encode with a docstring that promises single-block batches only: for those two an exception "
               "on multi-block / 3-D layouts is accepted (counted as layout_rejected); a returned tensor with other values never is",
               "RM inverse (brute force over 2^k codewords inside the library) is exercised for k<=16; RM(3,5), k=26, is skipped"]
CHK = "c04:check_case"

LAYOUTS = [("1d",), ("B", 1), ("B", 5), ("B1xB2", 2, 3), ("multi", 3, 2), ("multi", 1, 4), ("multi3d", 2, 2, 3)]


def shape_for(layout, k):
    t = layout[0]
    if t == "1d":
        return (k,)
    if t == "B":
        return (layout[1], k)
    if t == "B1xB2":
        return (layout[1], layout[2], k)
    if t == "multi":
        return (layout[1], layout[2] * k)
    if t == "multi3d":
        return (layout[1], layout[2], layout[3] * k)
    raise ValueError(layout)


def narrow_inverse(spec):
    return spec["family"] in ("hamming", "rm")


def check_case(ctx, cell, case):
    """case: {"spec", "layout": [...], "message": nested list matching the layout shape (optional: seed-generated)}"""
    import torch
    spec = case["spec"]
    cell = dict(cell or cat.cell_of(spec))
    layout = tuple(case["layout"])
    try:
        enc = cat.build_cached(spec)
    except ValueError as e:
        if spec["family"] == "bch" and "Bose" in str(e):
            return
        raise
    n, k = enc.code_length, enc.code_dimension
    if spec["family"] == "rm" and k > 16:
        ctx.cls("rm_k_gt_16_skipped")
        return
    cell["layout"] = layout[0]
    if layout[0] == "all" and spec["family"] == "rm" and k > 11:
        # the Reed-Muller inverse enumerates 2^k codewords per call: unit vectors, all-ones, zero and a few random messages
        M = c01.messages_for(k, case.get("seed", ctx.seed), nrand=6)[0]
        ctx.cls("rm_large_k_inverse")
    elif layout[0] == "all":
        M = c01.messages_for(k, 0)[0]
    elif "message" in case:
        M = np.asarray(case["message"], dtype=np.float32)
    else:
        rng = np.random.RandomState(case.get("seed", ctx.seed))
        M = (rng.rand(*shape_for(layout, k)) < 0.5).astype(np.float32)
    ccase = {"spec": spec, "layout": list(layout), "message": M.astype(int).tolist() if M.size <= 512 else None, "seed": case.get("seed", ctx.seed)}
    multi = layout[0] in ("multi", "multi3d", "B1xB2")
    x = torch.from_numpy(M.copy())
    ok, cw = ctx.call(lambda: enc(x), "C04.d_encode_raises", cell, ccase, "encoder raised on a documented layout", CHK)
    if not ok:
        return
    exp_shape = tuple(M.shape[:-1]) + (M.shape[-1] * n // k,)
    if not ctx.check(tuple(cw.shape) == exp_shape, "C04.d_encode_shape", cell, ccase, list(cw.shape), list(exp_shape), "encode output shape is not (..., L.n/k)", CHK):
        return
    nontriv = (cell.get("info") not in (None, "left") or spec["family"] in ("generic", "ldpc", "rm") or multi) and M.any()
    if nontriv:
        ctx.nontrivial(cell, hash(M.tobytes()))
    ctx.cls("layout_" + layout[0])

    def compare(name, fn, clause, want_syndrome=False):
        try:
            res = fn()
        except Exception as e:  # noqa: BLE001
            ctx.ev()
            if multi and narrow_inverse(spec) and name != "project_word":
                ctx.cls("layout_rejected_" + spec["family"])
                return
            ctx.fail(clause + "_raises", cell, ccase, f"{type(e).__name__}: {str(e)[:160]}", "message", f"{name} raised on a documented layout", CHK)
            return
        syn = None
        if isinstance(res, tuple):
            res, syn = res[0], res[1]
        got = res.detach().numpy()
        ctx.ev()
        if got.shape != M.shape:
            if multi and narrow_inverse(spec) and got.size == M.size and np.array_equal(got.reshape(M.shape), M):
                # same values, block axis kept separate: shape contract broken but values right
                ctx.fail(clause + "_shape", cell, ccase, list(got.shape), list(M.shape), f"{name}: output shape is not (..., L.k/n)", CHK)
                return
            ctx.fail(clause + "_shape", cell, ccase, list(got.shape), list(M.shape), f"{name}: output shape is not (..., L.k/n)", CHK)
            return
        if not np.array_equal(got, M):
            idx = np.argwhere(got != M)[0].tolist()
            ctx.fail(clause, cell, ccase, {"first_diff_at": idx, "got": got.astype(int).tolist() if got.size <= 64 else None}, "the encoded message",
                     f"{name}(encode(m)) != m", CHK)
        if want_syndrome and syn is not None:
            ctx.ev()
            if syn.detach().numpy().any():
                ctx.fail("C04.a_syndrome", cell, ccase, "non-zero", "all-zero syndrome", f"{name} reports a non-zero syndrome for a codeword", CHK)

    compare("inverse_encode", lambda: enc.inverse_encode(cw), "C04.a_inverse", True)
    compare("extract_message", lambda: enc.extract_message(cw), "C04.b_extract")
    if hasattr(enc, "project_word"):
        compare("project_word", lambda: enc.project_word(cw), "C04.c_project")
    # the same messages in other dtypes: values (as numbers) must not change
    if layout[0] in ("B", "multi") and M.size <= 256:
        for dt in (torch.float64, torch.int64):
            try:
                with __import__("kverif.core", fromlist=["quiet"]).quiet():
                    cwd = enc(torch.from_numpy(M.copy()).to(dt))
                    back = enc.inverse_encode(cwd)
            except Exception:
                ctx.cls("dtype_rejected_" + str(dt).split(".")[-1])
                continue
            back = back[0] if isinstance(back, tuple) else back
            ctx.ev()
            okd = tuple(cwd.shape) == tuple(cw.shape) and np.array_equal(cwd.to(torch.float64).numpy(), cw.to(torch.float64).numpy())
            ctx.check(okd, "C04.d_dtype_independent", cell, {**ccase, "dtype": str(dt)}, None, None, "encoding the same message in another dtype gives another codeword", CHK)
            okb = tuple(back.shape) == M.shape and np.array_equal(back.to(torch.float64).numpy(), M.astype(np.float64))
            ctx.check(okb, "C04.a_inverse", cell, {**ccase, "dtype": str(dt)}, None, None, "inverse_encode(encode(m)) != m for this dtype", CHK)
    if len(ctx.samples) < 2 and layout[0] != "all":
        ctx.sample({"cell": cell, "shape": list(M.shape), "n": n, "k": k})


def check_reject(ctx, cell, case):
    import torch
    spec = case["spec"]
    cell = dict(cell or cat.cell_of(spec))
    try:
        enc = cat.build_cached(spec)
    except ValueError:
        return
    n, k = enc.code_length, enc.code_dimension
    if spec["family"] == "rm" and k > 16:
        return
    for name, blk, fn in (("encode", k, lambda t: enc(t)), ("inverse_encode", n, lambda t: enc.inverse_encode(t)),
                          ("calculate_syndrome", n, lambda t: enc.calculate_syndrome(t))):
        if blk == 1:
            continue
        for L in {blk + 1, 2 * blk - 1, max(1, blk - 1)}:
            if L % blk == 0:
                continue
            for shape in ((L,), (2, L)):
                ctx.ev()
                try:
                    out = fn(torch.zeros(*shape))
                except Exception:
                    continue
                o = out[0] if isinstance(out, tuple) else out
                ctx.fail("C04.e_reject", {**cell, "op": name}, {"spec": spec, "op": name, "shape": list(shape)}, {"returned_shape": list(o.shape)}, "an error",
                         f"{name} accepted a last dimension that is not a multiple of the block size", "c04:check_reject")
    ctx.cls("reject_cells")


def unit_specs(ctx, specs):
    for s in specs:
        for s2 in (cat.expand_bch(s) if s.get("probe") else [s]):
            for li, layout in enumerate(LAYOUTS):
                check_case(ctx, None, {"spec": s2, "layout": list(layout), "seed": ctx.seed * 31 + li})
            check_case(ctx, None, {"spec": s2, "layout": ["all"]})
            check_reject(ctx, None, {"spec": s2})
    cat._CACHE.clear()


def unit_generated(ctx, kind, n, shard):
    lay = st.one_of(st.just(("1d",)), st.tuples(st.just("B"), st.integers(1, 6)), st.tuples(st.just("B1xB2"), st.integers(1, 3), st.integers(1, 3)),
                    st.tuples(st.just("multi"), st.integers(1, 4), st.integers(1, 4)), st.tuples(st.just("multi3d"), st.integers(1, 2), st.integers(1, 3), st.integers(1, 4)))
    strat = {"generic": st.one_of(c01.full_rank_G(5, 10), c01.pivot_G(6, 20)), "systematic": c01.parity_P(), "ldpc": c01.ldpc_H()}[kind]

    def f(t):
        x, layout, s = t
        if kind == "generic":
            has_id = all(any(sum(col) == 1 and col[i] == 1 for col in zip(*x)) for i in range(len(x)))
            spec = {"family": "generic", "G": x, "has_identity_cols": has_id}
        elif kind == "systematic":
            spec = x
        else:
            spec, rk = x
            if rk == len(spec["H"][0]):
                return
        check_case(ctx, None, {"spec": spec, "layout": list(layout), "seed": s})
        check_case(ctx, None, {"spec": spec, "layout": ["all"]})
        check_reject(ctx, None, {"spec": spec})
        cat._CACHE.clear()
    draw_cases(st.tuples(strat, lay, st.integers(0, 2 ** 20)), n, ctx.seed * 7919 + shard, f)


def units(tier, seed):
    T = tier == "thorough"
    specs = cat.structured_specs(tier, seed)

    def w(s):
        if s["family"] == "bch":
            return {2: 1, 3: 1, 4: 2, 5: 8, 6: 40}[s["mu"]]
        if s["family"] == "rm":
            return 2 ** max(0, s["m"] - 2)
        return 1
    specs.sort(key=lambda s: -w(s))
    nsh = 48 if T else 28
    shards, loads = [[] for _ in range(nsh)], [0.0] * nsh
    for s in specs:
        i = loads.index(min(loads))
        shards[i].append(s)
        loads[i] += w(s)
    us = [Unit(f"catalogue_{i:02d}", "c04:unit_specs", {"specs": sh}, loads[i]) for i, sh in enumerate(shards) if sh]
    ng = 2000 if T else 50
    for sh in range(3):
        for kind in ("generic", "systematic", "ldpc"):
            us.append(Unit(f"gen_{kind}_{sh}", "c04:unit_generated", {"kind": kind, "n": ng, "shard": sh * 10 + len(kind)}, 5))
    return us
