"""C02 — hard-decision decoders correct every pattern of <= t errors; complete decoders are ML."""
from __future__ import annotations

import itertools

import numpy as np

from .. import catalogue as cat
from ..core import Unit
from ..ref import gf2

PROPERTY = "C02"
RULE = ("pairs (code cell, decoder) from the catalogue; t = floor((d_adv-1)/2) from what the code advertises (minimum_distance / delta / "
        "error_correction_capability; d_true where nothing is advertised); inputs: all (codeword, error pattern of weight<=t) when the product is "
        "within the tier budget (exhaustive), otherwise all patterns of weight<=t on the zero codeword and on 8 seeded codewords plus seeded "
        "(codeword, weight, pattern) triples; words are presented as one large batch, as 1-D tensors and in small batches at every row position. "
        "ML clause: all 2^n words for n<=10 (thorough 12), seeded words above. Non-trivial: error weight>=1 and message!=0; distinct = (cell, decoder, message, pattern).")
ASSUMPTIONS = ["reference codebook = GF(2) span of encoder(I_k) (C01 shows encoder == m.G); distances by brute force in kverif/ref/gf2.py",
               "a decoder exception on a binary word of the right length is a failure of the clause, not a harness error",
               "brute-force ML is exercised for k<=11; the Reed-Muller nearest-codeword inverse for k<=16 (RM(3,5), k=26, would need a 2^26-row codebook inside the library)"]
CHK = "c02:check_case"


def _bits(ints, n):
    a = np.asarray(ints, dtype=np.uint64)
    return ((a[:, None] >> np.arange(n, dtype=np.uint64)[None, :]) & np.uint64(1)).astype(np.float32)


def _ints(bits):
    b = np.rint(np.asarray(bits)).astype(np.uint64) & np.uint64(1)
    return (b << np.arange(b.shape[-1], dtype=np.uint64)).sum(axis=-1).astype(np.uint64)


def make_decoder(name, enc):
    import kaira.models.fec.decoders as D
    if name == "syndrome":
        d = D.SyndromeLookupDecoder(enc)
        return lambda x, **kw: d(x, **kw)
    if name == "ml":
        d = D.BruteForceMLDecoder(enc)
        return lambda x, **kw: d(x, **kw)
    if name == "bm":
        d = D.BerlekampMasseyDecoder(enc)
        return lambda x, **kw: d(x, **kw)
    if name == "rm_majority":
        d = D.ReedMullerDecoder(enc, input_type="hard")
        return lambda x, **kw: d(x, **kw)
    if name == "inverse":
        return lambda x, **kw: enc.inverse_encode(x)[0]
    raise ValueError(name)


def advertised_t(enc, d_true):
    t = getattr(enc, "error_correction_capability", None)
    if t is not None:
        return int(t), "error_correction_capability"
    md = getattr(enc, "minimum_distance", None)
    if md is not None:
        md = md() if callable(md) else md
        return (int(md) - 1) // 2, "minimum_distance"
    return (d_true - 1) // 2, "d_true"


def decoders_for(spec, n, k, tier):
    T = tier == "thorough"
    f = spec["family"]
    out = []
    r = n - k
    # Reed-Muller "syndromes" are n-bit error patterns: the lookup table only fills after all 2^n patterns
    if f not in ("ldpc",) and r <= (12 if T else 10) and n <= 32 and not (f == "rm" and n > 8):
        out.append("syndrome")
    if k <= (11 if T else 8) and n <= 32:
        out.append("ml")
    if f == "bch":
        out.append("bm")
    if f == "rm":
        out.append("rm_majority")
        if k <= 11:
            out.append("inverse")
    if f == "hamming":
        out.append("inverse")
    return out


COMPLETE = {"syndrome", "ml", "inverse_rm"}


def run_words(ctx, dec, cell, spec, dname, msgs_int, errs_int, cbook, n, k, clause, layout="batch", dtype=None):
    """Decode codeword(msg)+err for aligned arrays; compare with msg."""
    import torch
    cw = cbook[msgs_int.astype(np.int64)]
    rx = cw ^ errs_int
    X = _bits(rx, n)
    ccase0 = {"spec": spec, "decoder": dname, "layout": layout}
    outs = None
    if dtype is not None:
        # the same words as an integer tensor (the natural type of hard decisions); words repeat so that equal syndromes meet on one object
        ccase0["dtype"] = dtype
        tdt = getattr(torch, dtype)
        try:
            with __import__("kverif.core", fromlist=["quiet"]).quiet():
                outs = np.concatenate([np.asarray(dec(torch.from_numpy(X.copy()).to(tdt)).detach().to(torch.float64).numpy()).reshape(len(X), -1) for _ in range(2)])
        except Exception:
            ctx.cls("dtype_rejected_" + dtype)
            return
        X = np.concatenate([X, X])
        msgs_int = np.concatenate([msgs_int, msgs_int])
        errs_int = np.concatenate([errs_int, errs_int])
    try:
        if outs is not None:
            pass
        elif layout == "1d":
            outs = np.stack([np.asarray(dec(torch.from_numpy(X[i].copy())).detach().numpy()).reshape(-1) for i in range(len(X))])
        elif layout == "small":
            # small batches of size 1..6, so that every word sits at several different row indices
            res, i, b = [], 0, 1
            while i < len(X):
                chunk = X[i:i + b]
                res.append(np.asarray(dec(torch.from_numpy(chunk.copy())).detach().numpy()).reshape(len(chunk), -1))
                i += b
                b = b % 6 + 1
            outs = np.concatenate(res)
        else:
            outs = np.asarray(dec(torch.from_numpy(X.copy())).detach().numpy()).reshape(len(X), -1)
    except Exception as e:  # noqa: BLE001
        ctx.ev()
        ctx.fail(clause + "_raises", cell, {**ccase0, "message": int(msgs_int[0]), "error": int(errs_int[0])}, f"{type(e).__name__}: {str(e)[:160]}", "decoded message",
                 "decoder raised on binary words of the code length", CHK)
        return
    ctx.ev(len(X))
    if outs.shape[1] != k:
        ctx.fail(clause + "_shape", cell, {**ccase0, "message": int(msgs_int[0]), "error": int(errs_int[0])}, list(outs.shape), [len(X), k], "decoder output is not (..., k)", CHK)
        return
    got = _ints(outs)
    bad = np.nonzero(got != msgs_int.astype(np.uint64))[0]
    wts = gf2.popcount64(errs_int)
    nz = (wts > 0) & (msgs_int > 0)
    ctx.nontrivial_many((dname, str(cell)), (msgs_int[nz].astype(np.int64) * 1000003 + errs_int[nz].astype(np.int64) % 1000003).tolist()[:20000])
    for w in np.unique(wts):
        ctx.cls(f"error_weight_{int(w)}", int((wts == w).sum()))
    if len(bad):
        # smallest failing case: fewest error bits then smallest message
        order = sorted(bad.tolist(), key=lambda i: (int(wts[i]), bin(int(msgs_int[i])).count("1"), int(msgs_int[i])))
        i = order[0]
        ctx.fail(clause, cell, {**ccase0, "message": int(msgs_int[i]), "error": int(errs_int[i])},
                 {"decoded": outs[i].astype(int).tolist()}, {"message": _bits([msgs_int[i]], k)[0].astype(int).tolist(), "error_weight": int(wts[i])},
                 f"{dname} did not return the transmitted message with {int(wts[i])} <= t errors", CHK)
        ctx.fail_total += len(bad) - 1


def patterns_upto(n, t):
    out = [0]
    for w in range(1, t + 1):
        for pos in itertools.combinations(range(n), w):
            v = 0
            for p in pos:
                v |= 1 << p
            out.append(v)
    return np.asarray(out, dtype=np.uint64)


def check_cell(ctx, spec, only_decoder=None):
    import torch
    try:
        enc = cat.build(spec)
    except ValueError as e:
        if spec["family"] == "bch" and "Bose" in str(e):
            return
        raise
    n, k = enc.code_length, enc.code_dimension
    if n > 63:
        return
    base_cell = cat.cell_of(spec)
    if spec["family"] in ("cyclic", "cyclic_std"):
        base_cell["k_gt_12"] = k > 12  # minimum_distance() switches from enumeration to an upper bound (recorded finding)
    rows = gf2.rows_from_matrix(enc(torch.eye(k, dtype=torch.float32)).detach().numpy())
    if gf2.rank(rows, n) != k:
        ctx.cls("skipped_not_injective")
        return
    d_true = gf2.true_min_distance(rows, n) if (k <= 22 or n - k <= 22) else None
    if d_true is None:
        ctx.cls("skipped_d_true_undecided")
        return
    t_adv, src = advertised_t(enc, d_true)
    t_true = (d_true - 1) // 2
    cbook = gf2.codebook(rows) if k <= 16 else None
    budget = 60000 if ctx.tier == "thorough" else 2500
    rng = np.random.RandomState(ctx.seed + 13)
    for dname in decoders_for(spec, n, k, ctx.tier):
        if only_decoder and dname != only_decoder:
            continue
        if spec["family"] == "bch" and dname == "bm" and k > 16:
            cb = None
        cell = {**base_cell, "decoder": dname}
        try:
            dec = make_decoder(dname, enc)
        except Exception as e:  # noqa: BLE001
            ctx.ev()
            ctx.fail("C02.construct", cell, {"spec": spec, "decoder": dname}, f"{type(e).__name__}: {str(e)[:160]}", "decoder object", "decoder constructor raised", CHK)
            continue
        ctx.cls("pairs_" + dname)
        per_word_cost = 8 if dname == "bm" else 1
        bud = max(200, budget // per_word_cost)
        complete = dname in ("syndrome", "ml") or (dname == "inverse" and spec["family"] == "rm")
        # t_true is used (i) behind a code whose true distance is below the advertised one, so that a decoder
        # defect stays visible, and (ii) for complete decoders, for which ML implies correction up to t_true.
        second = ((t_true, "C02.a_correct_true_t"),) if (t_true < t_adv or (complete and t_true > t_adv)) else ()
        for t, clause in ((t_adv, "C02.a_correct"),) + second:
            if t < 0:
                continue
            pats = patterns_upto(n, min(t, 4)) if n <= 32 or t <= 2 else patterns_upto(n, 1)
            # weights above the enumeration cap: seeded patterns of every weight up to t (200 per weight; thorough 1000)
            lo_w = (min(t, 4) if n <= 32 or t <= 2 else 1) + 1
            if t >= lo_w:
                extra_p = []
                per_w = 1000 if ctx.tier == "thorough" else 200
                for w in range(lo_w, t + 1):
                    for _ in range(per_w):
                        v = 0
                        for pos in rng.choice(n, size=w, replace=False):
                            v |= 1 << int(pos)
                        extra_p.append(v)
                heavy = np.asarray(extra_p, dtype=np.uint64)
            else:
                heavy = None
            if k <= 16:
                ncw = 1 << k
                if ncw * len(pats) <= bud:
                    msgs = np.repeat(np.arange(ncw, dtype=np.uint64), len(pats))
                    errs = np.tile(pats, ncw)
                    ctx.exhaustive(f"{dname}:{canon_small(base_cell)}", True)
                    ctx.cls("cells_exhaustive_codewords_x_patterns")
                else:
                    sel = np.concatenate([[0], rng.randint(1, ncw, size=8)]).astype(np.uint64)
                    p = pats if len(pats) * 9 <= bud else np.concatenate([pats[: n + 1], pats[rng.randint(0, len(pats), size=max(1, bud // 9 - n - 1))]])
                    msgs = np.repeat(sel, len(p))
                    errs = np.tile(p, len(sel))
                    extra = max(0, min(bud - len(msgs), 400))
                    if extra:
                        msgs = np.concatenate([msgs, rng.randint(0, ncw, size=extra).astype(np.uint64)])
                        errs = np.concatenate([errs, pats[rng.randint(0, len(pats), size=extra)]])
                    ctx.cls("cells_sampled")
                run_words(ctx, dec, cell, spec, dname, msgs, errs, cbook, n, k, clause)
                if heavy is not None:
                    hb = max(50, min(len(heavy), bud // 2))
                    hsel = heavy[rng.choice(len(heavy), size=hb, replace=False)] if hb < len(heavy) else heavy
                    hm = rng.randint(0, ncw, size=len(hsel)).astype(np.uint64)
                    run_words(ctx, dec, cell, spec, dname, hm, hsel, cbook, n, k, clause)
                    ctx.cls("heavy_weight_patterns", len(hsel))
                # other layouts on a subsample
                sub = rng.choice(len(msgs), size=min(len(msgs), 60 if dname != "bm" else 24), replace=False)
                run_words(ctx, dec, {**cell, "layout": "1d"}, spec, dname, msgs[sub], errs[sub], cbook, n, k, clause, "1d")
                run_words(ctx, dec, {**cell, "layout": "small"}, spec, dname, msgs[sub], errs[sub], cbook, n, k, clause, "small")
                for dt in ("int32", "int64", "uint8", "int8"):
                    run_words(ctx, dec, {**cell, "dtype": dt}, spec, dname, msgs[sub], errs[sub], cbook, n, k, clause, "batch", dtype=dt)
            else:
                # large k: codewords computed on the fly
                m = bud // 4
                M = (rng.rand(m, k) < 0.5)
                M[0] = False
                cw_int = np.array([gf2.vec_mat(gf2.vec_to_int(r), rows) for r in M], dtype=np.uint64)
                errs = pats[rng.randint(0, len(pats), size=m)] if len(pats) > 1 else np.zeros(m, dtype=np.uint64)
                if heavy is not None:
                    errs[m // 2:] = heavy[rng.randint(0, len(heavy), size=m - m // 2)]
                _run_large(ctx, dec, cell, spec, dname, M, cw_int, errs, n, k, clause)
        # (b) return_errors consistency
        if dname in ("syndrome", "ml", "bm", "rm_majority") and k <= 16:
            _check_return_errors(ctx, enc, dec, cell, spec, dname, cbook, n, k, rng, t_adv)
        # (c) ML completeness
        if (dname in ("syndrome", "ml") or (dname == "inverse" and spec["family"] == "rm")) and k <= 16:
            _check_ml(ctx, enc, dec, cell, spec, dname, cbook, n, k, rng)
    if spec["family"] == "rm" and 11 < k <= 16 and only_decoder in (None, "inverse"):
        _rm_inverse_big(ctx, enc, {**base_cell, "decoder": "inverse"}, spec, cbook, n, k, rng, t_true)
    if len(ctx.samples) < 2:
        ctx.sample({"cell": base_cell, "n": n, "k": k, "d_true": d_true, "t_advertised": t_adv, "t_source": src})


def canon_small(c):
    return ",".join(f"{k}={v}" for k, v in sorted(c.items()))


def _run_large(ctx, dec, cell, spec, dname, M, cw_int, errs, n, k, clause):
    import torch
    rx = cw_int ^ errs
    X = _bits(rx, n)
    try:
        outs = np.asarray(dec(torch.from_numpy(X.copy())).detach().numpy()).reshape(len(X), -1)
    except Exception as e:  # noqa: BLE001
        ctx.ev()
        ctx.fail(clause + "_raises", cell, {"spec": spec, "decoder": dname, "message_bits": M[0].astype(int).tolist(), "error": int(errs[0])}, f"{type(e).__name__}: {str(e)[:160]}", "decoded", checker=CHK)
        return
    ctx.ev(len(X))
    bad = np.nonzero((np.rint(outs) != M).any(axis=1))[0] if outs.shape == M.shape else np.arange(len(X))
    wts = gf2.popcount64(errs)
    ctx.nontrivial_many((dname, str(cell), "L"), [int(x) % (1 << 61) for x in rx[(wts > 0) & M.any(axis=1)]])
    if len(bad):
        i = min(bad.tolist(), key=lambda j: int(wts[j]))
        ctx.fail(clause, cell, {"spec": spec, "decoder": dname, "message_bits": M[i].astype(int).tolist(), "error": int(errs[i])},
                 {"decoded": np.rint(outs[i]).astype(int).tolist() if outs.ndim == 2 else None}, {"error_weight": int(wts[i])},
                 f"{dname} did not return the transmitted message with {int(wts[i])} <= t errors", CHK)
        ctx.fail_total += len(bad) - 1


def _check_return_errors(ctx, enc, dec, cell, spec, dname, cbook, n, k, rng, t):
    import torch
    pats = patterns_upto(n, min(max(t, 0), 2))
    m = 40 if dname != "bm" else 12
    msgs = rng.randint(0, 1 << k, size=m).astype(np.uint64)
    errs = pats[rng.randint(0, len(pats), size=m)]
    rx = cbook[msgs.astype(np.int64)] ^ errs
    X = _bits(rx, n)
    try:
        res = dec(torch.from_numpy(X.copy()), return_errors=True)
    except Exception as e:  # noqa: BLE001
        ctx.ev()
        ctx.fail("C02.b_return_errors_raises", cell, {"spec": spec, "decoder": dname, "message": int(msgs[0]), "error": int(errs[0]), "return_errors": True},
                 f"{type(e).__name__}: {str(e)[:160]}", "(decoded, errors)", checker=CHK)
        return
    if not (isinstance(res, tuple) and len(res) == 2):
        ctx.ev()
        ctx.fail("C02.b_return_errors_type", cell, {"spec": spec, "decoder": dname, "return_errors": True}, str(type(res)), "tuple (decoded, errors)", checker=CHK)
        return
    decd, er = (np.asarray(r.detach().numpy()).reshape(len(X), -1) for r in res)
    ctx.ev(len(X))
    re_enc = cbook[_ints(decd).astype(np.int64)]
    lhs = rx ^ _ints(er)
    bad = np.nonzero(lhs != re_enc)[0]
    if len(bad):
        i = int(bad[0])
        ctx.fail("C02.b_errors_consistent", cell, {"spec": spec, "decoder": dname, "message": int(msgs[i]), "error": int(errs[i]), "return_errors": True},
                 {"received_plus_errors": int(lhs[i])}, {"reencoded_decoded": int(re_enc[i])}, "received + reported errors is not the re-encoded decoded message", CHK)


def _check_ml(ctx, enc, dec, cell, spec, dname, cbook, n, k, rng):
    import torch
    lim = 12 if ctx.tier == "thorough" else 10
    if n <= lim:
        words = np.arange(1 << n, dtype=np.uint64)
        ctx.cls("ml_cells_all_words")
    else:
        nw = 2000 if ctx.tier == "thorough" else 300
        words = np.array([int(rng.randint(0, 1 << 30)) | (int(rng.randint(0, 1 << 30)) << 30) for _ in range(nw)], dtype=np.uint64) & np.uint64((1 << n) - 1)
    X = _bits(words, n)
    try:
        outs = np.asarray(dec(torch.from_numpy(X.copy())).detach().numpy()).reshape(len(X), -1)
    except Exception as e:  # noqa: BLE001
        ctx.ev()
        ctx.fail("C02.c_ml_raises", cell, {"spec": spec, "decoder": dname, "word": int(words[0])}, f"{type(e).__name__}: {str(e)[:160]}", "decoded", checker=CHK)
        return
    ctx.ev(len(X))
    if outs.shape[1] != k:
        ctx.fail("C02.c_ml_shape", cell, {"spec": spec, "decoder": dname, "word": int(words[0])}, list(outs.shape), [len(X), k], checker=CHK)
        return
    dec_cw = cbook[_ints(outs).astype(np.int64)]
    dist = gf2.popcount64(words ^ dec_cw)
    best = gf2.min_distance_to_code(cbook, words)
    ctx.nontrivial_many((dname, str(cell), "ml"), words[best > 0].astype(np.int64).tolist()[:20000])
    bad = np.nonzero(dist != best)[0]
    if len(bad):
        i = int(min(bad.tolist(), key=lambda j: int(best[j])))
        ctx.fail("C02.c_ml", cell, {"spec": spec, "decoder": dname, "word": int(words[i])}, {"distance_of_decoded_codeword": int(dist[i])}, {"minimum_distance_to_code": int(best[i])},
                 f"{dname}: decoded codeword is not at minimum Hamming distance from the received word", CHK)
        ctx.fail_total += len(bad) - 1


def _rm_inverse_big(ctx, enc, cell, spec, cbook, n, k, rng, t):
    """Reed-Muller nearest-codeword inverse for 11 < k <= 16 (RM(2,5), RM(3,4)): each call enumerates 2^k codewords, so words go
    in chunks of 8. Random codewords x random patterns of every weight 0..t, then random words for the ML clause."""
    import torch
    dec = make_decoder("inverse", enc)
    ctx.cls("pairs_inverse_rm_big")
    per_w = 16 if ctx.tier == "thorough" else 8
    msgs, errs = [], []
    for w in range(0, t + 1):
        for _ in range(per_w if w else 2):
            v = 0
            for pos in rng.choice(n, size=w, replace=False):
                v |= 1 << int(pos)
            msgs.append(int(rng.randint(1, 1 << k)))
            errs.append(v)
    msgs, errs = np.asarray(msgs, dtype=np.uint64), np.asarray(errs, dtype=np.uint64)
    for i in range(0, len(msgs), 8):
        run_words(ctx, dec, cell, spec, "inverse", msgs[i:i + 8], errs[i:i + 8], cbook, n, k, "C02.a_correct")
    nw = 48 if ctx.tier == "thorough" else 16
    words = np.array([int(rng.randint(0, 1 << 30)) | (int(rng.randint(0, 1 << 30)) << 30) for _ in range(nw)], dtype=np.uint64) & np.uint64((1 << n) - 1)
    for i in range(0, nw, 8):
        w8 = words[i:i + 8]
        try:
            outs = np.asarray(dec(torch.from_numpy(_bits(w8, n).copy())).detach().numpy()).reshape(len(w8), -1)
        except Exception as e:  # noqa: BLE001
            ctx.ev()
            ctx.fail("C02.c_ml_raises", cell, {"spec": spec, "decoder": "inverse", "word": int(w8[0])}, f"{type(e).__name__}: {str(e)[:160]}", "decoded", checker=CHK)
            return
        ctx.ev(len(w8))
        dist = gf2.popcount64(w8 ^ cbook[_ints(outs).astype(np.int64)])
        best = gf2.min_distance_to_code(cbook, w8)
        ctx.nontrivial_many(("inverse", str(cell), "ml"), w8[best > 0].astype(np.int64).tolist())
        for j in np.nonzero(dist != best)[0]:
            ctx.fail("C02.c_ml", cell, {"spec": spec, "decoder": "inverse", "word": int(w8[j])}, {"distance_of_decoded_codeword": int(dist[j])},
                     {"minimum_distance_to_code": int(best[j])}, "inverse: decoded codeword is not at minimum Hamming distance from the received word", CHK)


def check_case(ctx, cell, case):
    """Replay: one (spec, decoder, message, error) or (spec, decoder, word)."""
    import torch
    spec, dname = case["spec"], case["decoder"]
    enc = cat.build(spec)
    n, k = enc.code_length, enc.code_dimension
    rows = gf2.rows_from_matrix(enc(torch.eye(k, dtype=torch.float32)).detach().numpy())
    cbook = gf2.codebook(rows) if k <= 16 else None
    dec = make_decoder(dname, enc)
    cell = cell or {**cat.cell_of(spec), "decoder": dname}
    rng = np.random.RandomState(0)
    if "word" in case:
        w = np.array([case["word"]], dtype=np.uint64)
        X = _bits(w, n)
        outs = np.asarray(dec(torch.from_numpy(X)).detach().numpy()).reshape(1, -1)
        dist = gf2.popcount64(w ^ cbook[_ints(outs).astype(np.int64)])
        best = gf2.min_distance_to_code(cbook, w)
        ctx.check(int(dist[0]) == int(best[0]), "C02.c_ml", cell, case, int(dist[0]), int(best[0]), checker=CHK)
    elif case.get("return_errors"):
        _check_return_errors(ctx, enc, dec, cell, spec, dname, cbook, n, k, rng, 1)
    elif "message_bits" in case:
        M = np.asarray([case["message_bits"]], dtype=bool)
        cw = np.array([gf2.vec_mat(gf2.vec_to_int(M[0]), rows)], dtype=np.uint64)
        _run_large(ctx, dec, cell, spec, dname, M, cw, np.array([case["error"]], dtype=np.uint64), n, k, "C02.a_correct")
    else:
        run_words(ctx, dec, cell, spec, dname, np.array([case["message"]], dtype=np.uint64), np.array([case["error"]], dtype=np.uint64), cbook, n, k,
                  "C02.a_correct", case.get("layout", "batch"), dtype=case.get("dtype"))


def unit_specs(ctx, specs):
    limit = 1500 if ctx.tier == "thorough" else 75
    for s in specs:
        for s2 in (cat.expand_bch(s) if s.get("probe") else [s]):
            if ctx.elapsed() > limit:
                ctx.budget_hit = True
                ctx.cls("cells_not_reached_time_budget")
                continue
            check_cell(ctx, s2)


def unit_generated(ctx, n_cases, shard):
    from hypothesis import strategies as st
    from ..hyp import draw_cases
    from . import c01

    def f(x):
        if isinstance(x, dict):
            spec = x
        else:
            spec = {"family": "generic", "G": x, "has_identity_cols": False}
        check_cell(ctx, spec)
    draw_cases(st.one_of(c01.full_rank_G(5, 10), c01.pivot_G(5, 12), c01.parity_P()), n_cases, ctx.seed * 7919 + shard, f)


def units(tier, seed):
    T = tier == "thorough"
    specs = cat.structured_specs(tier, seed, custom_info=True)
    # decoders are slow python loops: thin the catalogue in the quick tier
    if not T:
        keep = []
        for s in specs:
            f = s["family"]
            if f == "cyclic" and s["n"] > 9 and (s["g"] % 5 != 0) and not (s["n"] == 15 and s["g"] == 7):  # (15, g=7): witness of KF-C02-CYCLIC-DMIN-LARGE-K
                continue
            if f == "bch" and s["mu"] > 4:
                continue
            keep.append(s)
        specs = keep

    def w(s):
        f = s["family"]
        if f == "bch":
            return {2: 1, 3: 2, 4: 12, 5: 60, 6: 300}[s["mu"]]
        if f == "golay":
            return 10
        if f == "rm":
            return 2 ** max(0, s["m"] - 2)
        if f == "hamming":
            return 2 ** max(0, s["mu"] - 2)
        return 1
    specs.sort(key=lambda s: -w(s))
    nsh = 64 if T else 30
    shards, loads = [[] for _ in range(nsh)], [0.0] * nsh
    for s in specs:
        i = loads.index(min(loads))
        shards[i].append(s)
        loads[i] += w(s)
    us = [Unit(f"catalogue_{i:02d}", "c02:unit_specs", {"specs": sh}, loads[i]) for i, sh in enumerate(shards) if sh]
    # variants of one family that share (n, k) but differ in information set / options, in ONE process and in both orders: class- or
    # module-level tables keyed too coarsely (by mu, by (n,k)) would leak from one encoder or decoder to the next
    def fam(pred):
        v = [s for s in specs if pred(s)]
        return v + v[::-1] + v[:1]
    groups = {"hamming3": lambda s: s["family"] == "hamming" and s["mu"] == 3, "hamming4": lambda s: s["family"] == "hamming" and s["mu"] == 4,
              "cyclic7": lambda s: s["family"] == "cyclic" and s["n"] == 7, "bch4": lambda s: s["family"] == "bch" and s["mu"] == 4,
              "rm3": lambda s: s["family"] == "rm" and s["m"] == 3, "small": lambda s: s["family"] in ("repetition", "spc") and s.get("n", s.get("k", 0)) <= 5}
    for gname, pred in groups.items():
        g = fam(pred)
        if g:
            us.append(Unit(f"cross_instance_{gname}", "c02:unit_specs", {"specs": g}, 2 * len(g)))
    for sh in range(2):
        us.append(Unit(f"generated_{sh}", "c02:unit_generated", {"n_cases": 150 if T else 15, "shard": sh}, 5))
    return us
