"""C20 — per-sample components are pure: batch result == stack of single results; layouts agree or raise."""
from __future__ import annotations

import itertools

import hypothesis
import numpy as np
from hypothesis import HealthCheck, Phase, settings
from hypothesis import strategies as st
from hypothesis.stateful import RuleBasedStateMachine, rule, run_state_machine_as_test

from .. import catalogue as cat
from .. import modcat as mc
from ..core import Unit, quiet
from ..hyp import draw_cases

PROPERTY = "C20"
RULE = ("components: encoders and hard/soft decoders of the code catalogue, polar encoder/decoders, memoryless modulators and hard/soft demodulators, Total/Average/PAPR/"
        "PerAntenna constraints. For seeded batches of 1..6 pairwise different members (with planted special members: zero-syndrome rows among erroneous ones, all-zero signal rows): "
        "f(stack) == stack(f(member)), every permutation of the batch for size<=4, the layouts 1-D, (B,n), (B1,B2,n), (B,b.n) each equal to per-block evaluation or raising, repeated "
        "and interleaved calls on the same object (Hypothesis stateful machine) equal to a fresh object, input tensor unchanged. Non-trivial: batch>=2 with pairwise different members.")
ASSUMPTIONS = ["float outputs compared within 1e-5 relative (+1e-6 absolute); ML-type decoders are fed words without distance ties (codeword + <= t errors), ties belong to C02's validity predicate",
               "a layout a component does not support may raise; a returned tensor must equal per-block evaluation",
               "PerAntennaPower is applied to [batch, antennas, time] inputs; PAPR/Total/Average to [batch, ...] inputs with >1 rows (their documented batch rule)"]
CHK = "c20:check_component"


def components(tier):
    """list of (name, cell, factory) ; factory() -> dict(fn, n_in, gen(rng, rows)->np.array(rows, n_in), kind)"""
    import torch
    import kaira.constraints as K
    import kaira.models.fec.decoders as D
    import kaira.models.fec.encoders as E
    comps = []

    def code_entry(spec, decs):
        def enc_factory():
            with quiet():
                enc = cat.build(spec)
            k = enc.code_dimension
            return dict(fn=lambda x: enc(x), n_in=k, gen=lambda rng, rows: (rng.rand(rows, k) < 0.5).astype(np.float32), dtype="bits")
        comps.append((f"enc_{spec['family']}", {**cat.cell_of(spec), "component": "encoder"}, enc_factory))
        for dname in decs:
            def dec_factory(dname=dname, aux=False):
                with quiet():
                    enc = cat.build(spec)
                    dec = {"syndrome": lambda: D.SyndromeLookupDecoder(enc), "ml": lambda: D.BruteForceMLDecoder(enc), "bm": lambda: D.BerlekampMasseyDecoder(enc),
                           "rm_majority": lambda: D.ReedMullerDecoder(enc, input_type="hard"), "rm_soft": lambda: D.ReedMullerDecoder(enc, input_type="soft"),
                           "bp": lambda: D.BeliefPropagationDecoder(enc, bp_iters=5), "minsum": lambda: D.MinSumLDPCDecoder(enc, bp_iters=5),
                           "wagner": lambda: D.WagnerSoftDecisionDecoder(enc), "inverse": lambda: (lambda x: enc.inverse_encode(x)[0])}[dname]()
                n, k = enc.code_length, enc.code_dimension
                # correctable weight: the code's true capability (tie-free words for the complete decoders)
                from ..ref import gf2 as _g
                rows_ = _g.rows_from_matrix(enc(torch.eye(k)).detach().numpy())
                t = (_g.true_min_distance(rows_, n) - 1) // 2 if dname in ("syndrome", "ml", "bm", "rm_majority", "inverse") else 0
                if dname == "inverse" and spec["family"] == "hamming":
                    t = min(t, 1)
                soft = dname in ("bp", "minsum", "wagner", "rm_soft")

                def gen(rng, rows):
                    M = (rng.rand(rows, k) < 0.5).astype(np.float32)
                    with quiet():
                        C = enc(torch.from_numpy(M)).numpy()
                    if soft:
                        L = ((1 - 2 * C) * rng.uniform(0.5, 4.0, size=C.shape)).astype(np.float32)
                        # planted: one weak wrong-sign position in most rows (row 1 stays clean) so that the correcting path runs
                        for r in range(rows):
                            if r != 1:
                                p_ = rng.randint(0, n)
                                L[r, p_] = -np.sign(L[r, p_]) * 0.05 * (1 + r)
                        # planted: one member that is no codeword at all (random signs, weak magnitudes): iterative decoders converge on it at
                        # another speed than on its neighbours, or not at all
                        if rows >= 3:
                            L[2] = (rng.choice([-1.0, 1.0], size=n) * rng.uniform(0.2, 1.5, size=n)).astype(np.float32)
                        return L
                    # planted: rows with 1..t errors at seeded positions among zero-syndrome rows (row 1 stays clean)
                    if t:
                        for r in range(rows):
                            if r == 1:
                                continue
                            w = int(rng.randint(1, t + 1))
                            for p_ in rng.choice(n, size=w, replace=False):
                                C[r, p_] = 1 - C[r, p_]
                    # planted: one arbitrary word (possibly beyond t errors, possibly a tie) among the correctable ones
                    if rows >= 5:
                        C[4] = (rng.rand(n) < 0.5)
                    return C.astype(np.float32)
                if aux:
                    kw = {"return_soft": True} if dname in ("bp", "minsum") else {"return_errors": True}
                    return dict(fn=lambda x: dec(x, **kw)[1], n_in=n, gen=gen, dtype="llr" if soft else "bits")
                return dict(fn=lambda x: dec(x), n_in=n, gen=gen, dtype="llr" if soft else "bits")
            comps.append((f"dec_{dname}_{spec['family']}", {**cat.cell_of(spec), "component": "decoder_" + dname}, dec_factory))
            if dname in ("bp", "minsum", "syndrome", "ml", "bm", "rm_majority", "wagner"):
                # the decoder's second output (soft codeword estimate / estimated error pattern) is per block as well
                comps.append((f"dec_{dname}_aux_{spec['family']}", {**cat.cell_of(spec), "component": "decoder_" + dname + "_second_output"}, lambda f=dec_factory: f(aux=True)))

    code_entry({"family": "hamming", "mu": 3, "extended": False, "info": "left"}, ["syndrome", "ml", "bp", "minsum", "inverse"])
    code_entry({"family": "hamming", "mu": 3, "extended": True, "info": "right"}, ["syndrome"])
    code_entry({"family": "repetition", "n": 3}, ["ml", "bp"])
    code_entry({"family": "spc", "k": 4}, ["wagner", "ml"])
    code_entry({"family": "rm", "r": 1, "m": 3}, ["rm_majority", "rm_soft", "inverse"])
    code_entry({"family": "bch", "mu": 4, "delta": 5, "info": "left"}, ["bm", "syndrome"])
    code_entry({"family": "bch", "mu": 4, "delta": 7, "info": "left"}, ["syndrome"])  # redundancy 10: syndromes do not fit 8 bits
    code_entry({"family": "cyclic", "n": 7, "g": 0b1011, "info": "right"}, ["syndrome"])
    code_entry({"family": "systematic", "P": [[1, 1, 0], [0, 1, 1], [1, 0, 1]], "info": [4, 0, 2]}, ["syndrome", "bp"])
    code_entry({"family": "generic", "G": [[1, 1, 0, 1, 0], [0, 1, 1, 1, 1]]}, ["ml"])
    code_entry({"family": "ldpc", "H": [[1, 1, 0, 1, 1, 0, 0], [1, 0, 1, 1, 0, 1, 0], [0, 1, 1, 1, 0, 0, 1]]}, ["bp", "minsum"])
    code_entry({"family": "golay", "extended": False, "info": "left"}, ["syndrome"])
    code_entry({"family": "rs", "mu": 3, "delta": 3, "info": "left"}, [])

    # polar
    def polar_factory(kind):
        def f():
            with quiet():
                enc = E.PolarCodeEncoder(4, 8, frozen_zeros=True)
                if kind == "enc":
                    return dict(fn=lambda x: enc(x), n_in=4, gen=lambda rng, rows: (rng.rand(rows, 4) < 0.5).astype(np.float32), dtype="bits", single_block=True)
                dec = D.SuccessiveCancellationDecoder(enc) if kind == "sc" else D.BeliefPropagationPolarDecoder(enc, bp_iters=8)

            def gen(rng, rows):
                M = (rng.rand(rows, 4) < 0.5).astype(np.float32)
                with quiet():
                    C = enc(torch.from_numpy(M)).numpy()
                return ((1 - 2 * C) * rng.uniform(0.5, 4.0, size=C.shape)).astype(np.float32)
            return dict(fn=lambda x: dec(x), n_in=8, gen=gen, dtype="llr", single_block=True)
        return f
    for kind in ("enc", "sc", "bp"):
        comps.append((f"polar_{kind}", {"family": "polar", "component": "polar_" + kind}, polar_factory(kind)))

    # modulators / demodulators (memoryless)
    for s in mc.all_schemes():
        if mc.kind(s) != "memoryless" or s["scheme"] == "identity":
            continue
        if tier != "thorough" and s.get("order", 2) > 16 and not s.get("gray", True):
            continue
        b = mc.bits_per_symbol(s)

        def mod_factory(s=s, b=b):
            mod, dem = mc.build(s)
            return dict(fn=lambda x: mod(x), n_in=b * 2, gen=lambda rng, rows: (rng.rand(rows, b * 2) < 0.5).astype(np.float32), dtype="bits", block=b)

        def dem_factory(s=s, b=b, soft=False):
            mod, dem = mc.build(s)

            def gen(rng, rows):
                bits = (rng.rand(rows, b * 2) < 0.5).astype(np.float32)
                y = mod(torch.from_numpy(bits)).numpy()
                return (y + 0.05 * (rng.randn(*y.shape) + 1j * rng.randn(*y.shape))).astype(np.complex64)
            return dict(fn=(lambda x: dem(x, noise_var=0.5)) if soft else (lambda x: dem(x)), n_in=2, gen=gen, dtype="symbols", block=1)
        tag = "_".join(f"{k}{v}" for k, v in s.items())
        comps.append((f"mod_{tag}", {**s, "component": "modulator"}, mod_factory))
        comps.append((f"demod_hard_{tag}", {**s, "component": "demodulator_hard"}, dem_factory))
        if s["scheme"] != "psk" or s["order"] <= 8:
            comps.append((f"demod_soft_{tag}", {**s, "component": "demodulator_soft"}, lambda s=s, b=b: dem_factory(s, b, True)))

    # constraints
    def con_factory(kind):
        def f():
            con = {"total": lambda: K.TotalPowerConstraint(2.0), "average": lambda: K.AveragePowerConstraint(1.5), "papr": lambda: K.PAPRConstraint(max_papr=2.5),
                   "per_antenna": lambda: K.PerAntennaPowerConstraint(uniform_power=0.7)}[kind]()

            def gen(rng, rows):
                x = rng.randn(rows, 2, 12).astype(np.float32) * rng.uniform(0.2, 5.0, size=(rows, 1, 1)).astype(np.float32)
                if rows >= 3:
                    x[1] = 0.0  # planted zero-signal member
                if rows >= 2:
                    # planted weak (amplitude ~1e-3) and, in larger batches, strong (~1e3) members: where a regularising epsilon sits must not
                    # depend on whether a member is processed alone or in a batch
                    x[0] = (x[0] / max(float(np.abs(x[0]).max()), 1e-9) * 1e-3).astype(np.float32)
                if rows >= 5:
                    x[4] = (x[4] * 1e3).astype(np.float32)
                return x
            return dict(fn=lambda x: con(x), n_in=None, gen=gen, dtype="signal", constraint=True)
        return f
    for kind in ("total", "average", "papr", "per_antenna"):
        comps.append((f"constraint_{kind}", {"component": "constraint_" + kind}, con_factory(kind)))

    # large batch members (2 x 16384 samples each): per-item work of very different duration (a peaky member needs many clipping rounds, a
    # constant-modulus member none) must still come back at its own position
    def con_large(kind):
        def f():
            con = {"papr": lambda: K.PAPRConstraint(max_papr=2.0), "total": lambda: K.TotalPowerConstraint(3.0)}[kind]()

            def gen(rng, rows):
                x = rng.randn(rows, 2, 16384).astype(np.float32)
                x[0, :, ::97] *= 12.0  # peaky member first
                if rows >= 2:
                    x[1] = np.sign(x[1]) * 0.7  # constant modulus: nothing to clip
                if rows >= 3:
                    x[2] *= 3.0
                return x
            return dict(fn=lambda x: con(x), n_in=None, gen=gen, dtype="signal", constraint=True)
        return f
    for kind in ("papr", "total"):
        comps.append((f"constraint_{kind}_large_items", {"component": "constraint_" + kind, "items": "large"}, con_large(kind)))
    return comps


def call(fn, a):
    import torch
    with quiet():
        out = fn(torch.from_numpy(np.ascontiguousarray(a)))
    out = out[0] if isinstance(out, tuple) else out
    return out.detach().numpy()


def same(a, b):
    if a.shape != b.shape:
        return False
    if np.iscomplexobj(a) or a.dtype.kind == "f":
        return bool(np.allclose(a, b, rtol=1e-5, atol=1e-6))
    return bool(np.array_equal(a, b))


def check_component(ctx, cell, case):
    name = case["component"]
    entry = next((c for c in components(ctx.tier) if c[0] == name), None)
    if entry is None:
        return
    _, cell0, factory = entry
    cell = cell or cell0
    comp = factory()
    rng = np.random.RandomState(case.get("seed", ctx.seed))
    rows = case.get("rows", 4)
    X = comp["gen"](rng, rows)
    fn = comp["fn"]
    ccase = {"component": name, "seed": case.get("seed", ctx.seed), "rows": rows}
    single_ok = True
    # reference: each member alone (as a batch of one)
    singles = []
    for i in range(rows):
        ok, o = ctx.call(lambda: call(fn, X[i:i + 1]), "C20.single_raises", cell, {**ccase, "member": i}, checker=CHK)
        if not ok:
            return
        singles.append(o[0] if o.shape[0] == 1 else o)
    if len({x.tobytes() for x in X}) == rows and rows >= 2:
        ctx.nontrivial(cell, case.get("seed"), rows)
    X0 = X.copy()
    ok, full = ctx.call(lambda: call(fn, X), "C20.batch_raises", cell, ccase, checker=CHK)
    if not ok:
        return
    ctx.ev()
    ctx.check(np.array_equal(X, X0), "C20.d_input_unmodified", cell, ccase, None, None, "component modified its input tensor", CHK)
    full_view, full = full, full.copy()  # full_view shares memory with the tensor the component returned
    exp = np.stack(singles)
    if not same(full, exp):
        bad = next((i for i in range(rows) if full.shape[0] == rows and not same(full[i], exp[i])), None)
        ctx.fail("C20.a_batch_equals_stack", cell, {**ccase, "member": bad}, {"shape": list(full.shape)}, {"shape": list(exp.shape)},
                 "result for a batch differs from the stack of the results of its members processed alone", CHK)
        return
    # permutations
    perms = list(itertools.permutations(range(rows))) if rows <= 4 else [tuple(rng.permutation(rows)) for _ in range(6)]
    for p in perms[1:]:
        p = list(p)
        o = call(fn, X[p])
        ctx.ev()
        if not same(o, full[p]):
            ctx.fail("C20.a_permutation", cell, {**ccase, "perm": p}, None, None, "result depends on a member's position in the batch", CHK)
            break
    # other input dtypes of the same values (bit-valued inputs): same answers, input never modified
    if comp["dtype"] == "bits":
        import torch
        for dt in (torch.int32, torch.int64, torch.float64, torch.uint8, torch.int8, torch.int16):
            xt = torch.from_numpy(np.ascontiguousarray(X)).to(dt)
            x0 = xt.clone()
            try:
                with quiet():
                    od = fn(xt)
                    od2 = fn(xt)
            except Exception:
                ctx.cls("dtype_rejected_" + str(dt).split(".")[-1])
                continue
            od = (od[0] if isinstance(od, tuple) else od).detach().to(torch.float64).numpy()
            od2 = (od2[0] if isinstance(od2, tuple) else od2).detach().to(torch.float64).numpy()
            ctx.ev()
            dcase = {**ccase, "dtype": str(dt)}
            ctx.check(bool(torch.equal(xt, x0)), "C20.d_input_unmodified", cell, dcase, None, None, "component modified its input tensor", CHK)
            ctx.check(same(od, full.astype(np.float64)), "C20.a_dtype_independent", cell, dcase, None, None, "the same bits in another dtype give different values", CHK)
            ctx.check(same(od2, od), "C20.c_repeatable", cell, dcase, None, None, "a second identical call gives a different answer", CHK)
    # repeated call
    o2 = call(fn, X)
    ctx.check(same(o2, full), "C20.c_repeatable", cell, ccase, None, None, "a second identical call gives a different answer", CHK)
    # layouts
    if not comp.get("constraint"):
        per_row = full
        # 1-D
        try:
            o = call(fn, X[0])
            ctx.ev()
            ctx.check(same(o.reshape(per_row[0].shape) if o.size == per_row[0].size else o, per_row[0]), "C20.b_layout_1d", cell, ccase, list(o.shape), list(per_row[0].shape),
                      "1-D input is answered with values that differ from the batched evaluation", CHK)
        except Exception:
            ctx.cls("layout_1d_rejected")
        # (B1,B2,n)
        if rows >= 4:
            try:
                o = call(fn, X[:4].reshape(2, 2, *X.shape[1:]))
                ctx.ev()
                good = o.size == per_row[:4].size and same(o.reshape(per_row[:4].shape), per_row[:4]) and tuple(o.shape[:2]) == (2, 2)
                ctx.check(good, "C20.b_layout_3d", cell, ccase, list(o.shape), [2, 2] + list(per_row.shape[1:]), "(B1,B2,n) input is answered with values that differ from the flattened evaluation", CHK)
            except Exception:
                ctx.cls("layout_3d_rejected")
        # (B, b.n): two blocks per row
        if rows >= 2 and not comp.get("single_block", False) and comp["dtype"] != "symbols" or (comp["dtype"] == "symbols" and rows >= 2):
            half = (rows // 2) * 2
            try:
                Xm = X[:half].reshape(half // 2, -1)
                o = call(fn, Xm)
                ctx.ev()
                ref = per_row[:half].reshape(half // 2, -1)
                ctx.check(o.shape == ref.shape and same(o, ref), "C20.b_layout_multiblock", cell, ccase, list(o.shape), list(ref.shape),
                          "(B, b.n) input is answered with values that differ from per-block evaluation", CHK)
            except Exception:
                ctx.cls("layout_multiblock_rejected")
    # many blocks per row: 2 rows x 67 blocks must equal the 134 blocks decoded as a plain batch (helpers that split long rows into chunks
    # must put every block back at its place)
    if case.get("many_blocks") and not comp.get("constraint") and not comp.get("single_block", False):
        Xm = comp["gen"](np.random.RandomState(case.get("seed", ctx.seed) + 991), 134)
        try:
            flat = call(fn, Xm)
            o = call(fn, Xm.reshape(2, -1))
        except Exception:
            ctx.cls("layout_many_blocks_rejected")
            flat = None
        if flat is not None:
            ctx.ev()
            ref = flat.reshape(2, -1)
            ctx.check(o.shape == ref.shape and same(o, ref), "C20.b_layout_multiblock", cell, {**ccase, "many_blocks": True, "blocks_per_row": 67}, list(o.shape), list(ref.shape),
                      "(2, 67.n) input is answered with values that differ from per-block evaluation", CHK)
    # the same values as NON-CONTIGUOUS tensors (a transposed view of a (B2,B1,n) buffer; a strided slice of a wider buffer): same answers
    if not comp.get("constraint"):
        import torch
        views = []
        if rows >= 4:
            buf = torch.from_numpy(np.ascontiguousarray(X[:4].reshape(2, 2, *X.shape[1:]).swapaxes(0, 1)))
            views.append(("transposed_3d", buf.transpose(0, 1), full[:4]))
        wide = np.zeros((rows, 2 * X.shape[1]) + X.shape[2:], dtype=X.dtype)
        wide[:, ::2] = X
        wide[:, 1::2] = X[:, ::-1] if X.ndim == 2 else 0
        views.append(("strided_last_dim", torch.from_numpy(wide)[:, ::2], full))
        for vname, xv, ref in views:
            if xv.is_contiguous():
                continue
            try:
                with quiet():
                    o = fn(xv)
            except Exception:
                ctx.cls("layout_noncontiguous_rejected")
                continue
            o = (o[0] if isinstance(o, tuple) else o).detach().numpy()
            ctx.ev()
            good = o.size == ref.size and same(o.reshape(ref.shape), ref)
            ctx.check(good, "C20.b_layout_noncontiguous", cell, {**ccase, "view": vname}, list(o.shape), list(ref.shape), "a non-contiguous view of the same values is answered differently from the contiguous tensor", CHK)
    # the tensor returned by the first batch call must still hold its values after all the later calls on the same object
    ctx.check(same(full_view, full), "C20.e_output_not_overwritten", cell, ccase, None, None, "a result returned earlier was overwritten by a later call (the component hands out its internal buffer)", CHK)
    ctx.cls("components_" + cell.get("component", "?").split("_")[0])
    if len(ctx.samples) < 2:
        ctx.sample({"component": name, "rows": rows, "input_shape": list(X.shape), "output_shape": list(full.shape)})


def unit_components(ctx, names, n_seeds):
    for name in names:
        # decoders get many more full-size batches: interactions between members (shared syndromes, caches) need collisions
        extra = 3 * n_seeds if name.startswith(("dec_", "polar_")) else 0
        for sd in range(n_seeds + extra):
            rows = [4, 2, 6, 3, 1, 5][sd % 6] if sd < n_seeds else 6
            check_component(ctx, None, {"component": name, "seed": ctx.seed * 100 + sd, "rows": rows, "many_blocks": sd == 0})


_LAST = {}


def unit_stateful(ctx, names, examples):
    """interleaved calls with different batches on one object equal a fresh object's answers."""
    comps = {c[0]: c for c in components(ctx.tier)}
    for name in names:
        _, cell, factory = comps[name]
        runs = {"n": 0}

        class Machine(RuleBasedStateMachine):
            def __init__(self):
                super().__init__()
                self.obj = factory()
                self.hist = []
                runs["n"] += 1

            @rule(seed=st.integers(0, 50), rows=st.integers(1, 5))
            def call_batch(self, seed, rows):
                rng = np.random.RandomState(seed)
                X = self.obj["gen"](rng, rows)
                self.hist.append([seed, rows])
                _LAST["hist"] = list(self.hist)
                try:
                    got = call(self.obj["fn"], X)
                    fresh = factory()
                    exp = call(fresh["fn"], fresh["gen"](np.random.RandomState(seed), rows))
                except Exception as e:  # noqa: BLE001  library raised on a valid batch: a failure of the component, not of the harness
                    raise AssertionError(f"component raised {type(e).__name__}: {str(e)[:100]}")
                assert same(got, exp), "answer depends on earlier calls on the same object"
        try:
            run_state_machine_as_test(hypothesis.seed(ctx.seed * 13 + len(name))(Machine),
                                      settings=settings(max_examples=examples, stateful_step_count=6, deadline=None, database=None, derandomize=False,
                                                        suppress_health_check=list(HealthCheck), report_multiple_bugs=False, print_blob=False, phases=[Phase.generate, Phase.shrink]))
        except AssertionError as e:
            ctx.fail("C20.c_history_independent", cell, {"component": name, "history": _LAST.get("hist", [])}, str(e)[:160], "same answers as a fresh object", checker="c20:replay_history")
        except hypothesis.errors.Flaky as e:
            # the harness is deterministic (seeded inputs, no clock): a history that fails and then passes when Hypothesis replays it means the
            # COMPONENT gives different answers for identical calls
            ctx.fail("C20.c_repeatable", cell, {"component": name, "history": _LAST.get("hist", [])}, f"{type(e).__name__}: not reproducible", "identical histories give identical answers",
                     "the component's answers differ between identical runs of the same call history", checker="c20:replay_history")
        ctx.ev(runs["n"] * 3)
        ctx.nontrivial("hist", name)
        ctx.cls("stateful_components")
    ctx.sample({"components": names, "rule": "call_batch(seed, rows) compared with a fresh object"})


def replay_history(ctx, cell, case):
    comps = {c[0]: c for c in components(ctx.tier)}
    _, cell0, factory = comps[case["component"]]
    obj = factory()
    for seed, rows in case["history"]:
        got = call(obj["fn"], obj["gen"](np.random.RandomState(seed), rows))
        fresh = factory()
        exp = call(fresh["fn"], fresh["gen"](np.random.RandomState(seed), rows))
        ctx.check(same(got, exp), "C20.c_history_independent", cell or cell0, case, checker="c20:replay_history")


def units(tier, seed):
    T = tier == "thorough"
    names = [c[0] for c in components(tier)]
    us = []
    for i in range(0, len(names), 4):
        us.append(Unit(f"components_{i // 4:02d}", "c20:unit_components", {"names": names[i:i + 4], "n_seeds": 40 if T else 4}, 3))
    st_names = [n for n in names if n.startswith(("dec_", "enc_hamming", "polar", "constraint", "demod_soft_schemeqam_order16_grayTrue_normalizeTrue", "mod_schemepsk_order8_grayTrue"))]
    for i in range(0, len(st_names), 3):
        us.append(Unit(f"stateful_{i // 3:02d}", "c20:unit_stateful", {"names": st_names[i:i + 3], "examples": 150 if T else 8}, 3))
    return us
