"""C17 — pipeline models run their stages in declared order, independent of thread timing."""
from __future__ import annotations

import itertools
import threading
import time

import hypothesis
import numpy as np
from hypothesis import HealthCheck, Phase, settings
from hypothesis import strategies as st
from hypothesis.stateful import RuleBasedStateMachine, invariant, precondition, rule, run_state_machine_as_test

from ..core import Unit
from ..hyp import draw_cases

PROPERTY = "C17"
RULE = ("recording stages (log of (stage id, received value, args, kwargs)); sequential/configurable pipelines of 0..6 stages with Hypothesis stateful histories of "
        "add_step/remove_step/run against a list model; DeepJSCC and channel-code pipelines with recording components; parallel models with 1..4 (thorough 5) branches whose "
        "completion order is forced by the harness to every feasible permutation (all n! for enough workers), worker counts 1..n and default, order-sensitive aggregator; "
        "branching with generated overlapping condition tables; feedback with 1..5 rounds; multiple access with 1..4 users incl. repeated encoder instances. "
        "Non-trivial: parallel permutation != identity with n>=2; sequential history with >=2 stages after a remove; branching with >=2 true conditions.")
ASSUMPTIONS = ["the harness owns completion order only: each branch blocks on its own Event and a controller releases them in the prescribed permutation, waiting for the "
               "branch's 'returning' flag plus a 10 ms settle; imperfect gating can only make a run less adversarial, never raise a false alarm, because the expected "
               "answer does not depend on timing; a 10 s gate timeout is a harness error",
               "channel-code pipeline order is encoder, modulator, constraint, channel, demodulator, decoder (the step list the class declares; the constraint acts on symbols)",
               "branch names are unique (add_branch rejects duplicates; ParallelModel results are keyed by name)"]
CHK = "c17:check_case"


class Rec:
    """recording stage: value -> value + [id]; logs what it received."""

    def __init__(self, log, sid):
        self.log, self.sid = log, sid

    def __call__(self, x, *args, **kwargs):
        self.log.append((self.sid, list(x), tuple(args), dict(kwargs)))
        return list(x) + [self.sid]


class RecT(Rec):
    """recording stage whose payload is a TUPLE (a pipeline value may be any object, e.g. a (signal, csi) pair): value -> value + (id,)."""

    def __call__(self, x, *args, **kwargs):
        self.log.append((self.sid, tuple(x) if isinstance(x, tuple) else ("NOT_A_TUPLE", x), tuple(args), dict(kwargs)))
        return (tuple(x) if isinstance(x, tuple) else (x,)) + (self.sid,)


def run_sequential(ctx, kind, ids, args, kwargs, cell, case):
    """build a pipeline with stage ids `ids` (after any edits by the caller) and run it once."""
    raise NotImplementedError


FIXED_ROLES = {"deepjscc": ["encoder", "constraint", "channel", "decoder"], "channel_code": ["encoder", "modulator", "constraint", "channel", "demodulator", "decoder"]}


def check_sequence_model(ctx, cls_name, ops):
    """ops: list of ("add", sid) | ("remove", index) | ("run", args tuple, kwargs dict). Compared with a list model."""
    from kaira.models.base import ConfigurableModel
    from kaira.models.generic.sequential import SequentialModel
    cell = {"model": cls_name, "mode": "history"}
    case = {"kind": "sequence", "model": cls_name, "ops": [list(o) for o in ops]}
    log = []
    init = [Rec(log, f"i{j}") for j in range(ops[0][1])] if ops and ops[0][0] == "init" else None
    if cls_name in FIXED_ROLES:
        # the specialised pipelines inherit add_step / remove_step: the declared list after such edits is what must run
        from kaira.models.channel_code import ChannelCodeModel
        from kaira.models.deepjscc import DeepJSCCModel
        roles = FIXED_ROLES[cls_name]
        comps = {r: Rec(log, r) for r in roles}
        init = [comps[r] for r in roles]
        if cls_name == "deepjscc":
            m = DeepJSCCModel(comps["encoder"], comps["constraint"], comps["channel"], comps["decoder"])
        else:
            m = ChannelCodeModel(comps["encoder"], comps["constraint"], comps["modulator"], comps["channel"], comps["demodulator"], comps["decoder"])
    elif cls_name == "sequential":
        m = SequentialModel(init) if init is not None else SequentialModel()
    else:
        m = ConfigurableModel()
        for s in (init or []):
            m.add_step(s)
    model = [s.sid for s in (init or [])]
    objs = list(init or [])
    removed = False
    for op in ops:
        if op[0] == "init":
            continue
        if op[0] == "add":
            objs.append(Rec(log, op[1]))
            m.add_step(objs[-1])
            model.append(op[1])
        elif op[0] == "readd":
            # the SAME stage object a second time (a pipeline may use one module at several positions)
            if not objs:
                continue
            j = op[1] % len(objs)
            m.add_step(objs[j])
            model.append(model[j])
            objs.append(objs[j])
        elif op[0] == "remove":
            idx = op[1]
            ctx.ev()
            if 0 <= idx < len(model):
                m.remove_step(idx)
                model.pop(idx)
                objs.pop(idx)
                removed = True
            else:
                try:
                    m.remove_step(idx)
                    ctx.fail("C17.s_remove_out_of_range", cell, case, "no exception", "IndexError", "remove_step accepted an out-of-range index", CHK)
                    return False
                except IndexError:
                    pass
        elif op[0] == "run":
            del log[:]
            a, kw = tuple(op[1]), dict(op[2])
            out = m(["x"], *a, **kw)
            ctx.ev()
            exp_out = ["x"] + model
            exp_log = [(sid, ["x"] + model[:j], a, kw) for j, sid in enumerate(model)]
            if out != exp_out or log != exp_log:
                ctx.fail("C17.s_order", cell, case, {"output": out, "calls": [l[0] for l in log]}, {"output": exp_out}, "stages not applied in declared order, each exactly once, with extra arguments forwarded", CHK)
                return False
            if removed and len(model) >= 2:
                ctx.nontrivial("seq", cls_name, str(ops))
    return True


_LASTSEQ = {}


def unit_sequence_stateful(ctx, cls_name, examples, steps):
    runs = {"n": 0}

    class Machine(RuleBasedStateMachine):
        def __init__(self):
            super().__init__()
            self.ops = []
            self.n = 0
            self.count = 0
            runs["n"] += 1

        @precondition(lambda self: not self.ops)
        @rule(k=st.integers(0, 3))
        def init(self, k):
            self.ops.append(("init", k))
            self.count = len(FIXED_ROLES[cls_name]) if cls_name in FIXED_ROLES else k

        @precondition(lambda self: self.count < 9)
        @rule()
        def add(self):
            if not self.ops:
                self.ops.append(("init", 0))
            self.n += 1
            self.count += 1
            self.ops.append(("add", f"s{self.n}"))

        @precondition(lambda self: 0 < self.count < 9)
        @rule(j=st.integers(0, 5))
        def readd(self, j):
            self.count += 1
            self.ops.append(("readd", j))

        @rule(idx=st.integers(-1, 8))
        def remove(self, idx):
            if not self.ops:
                self.ops.append(("init", 0))
            if 0 <= idx < self.count:
                self.count -= 1
            self.ops.append(("remove", idx))

        @rule(a=st.lists(st.integers(0, 3), max_size=2), kw=st.dictionaries(st.sampled_from(["snr", "csi", "noise_var"]), st.integers(0, 5), max_size=2))
        def run(self, a, kw):
            if not self.ops:
                self.ops.append(("init", 0))
            self.ops.append(("run", a, kw))
            _LASTSEQ["ops"] = list(self.ops)
            sub = type(ctx)(ctx.prop, ctx.unit, ctx.tier, ctx.seed)
            ok = check_sequence_model(sub, cls_name, self.ops)
            ctx.evaluations += sub.evaluations
            ctx._nontrivial |= sub._nontrivial
            assert ok, "pipeline disagrees with the list model"

    # planted: one stage object at two positions, the later occurrence (and then the earlier one) removed
    for planted in ([("init", 0), ("add", "a"), ("add", "b"), ("readd", 0), ("remove", 2), ("run", [], {})],
                    [("init", 2), ("readd", 0), ("add", "c"), ("readd", 1), ("remove", 2), ("run", [1], {"snr": 2}), ("remove", 0), ("run", [], {})]):
        check_sequence_model(ctx, cls_name, planted)
    try:
        run_state_machine_as_test(hypothesis.seed(ctx.seed * 7 + len(cls_name))(Machine),
                                  settings=settings(max_examples=examples, stateful_step_count=steps, deadline=None, database=None, derandomize=False,
                                                    suppress_health_check=list(HealthCheck), report_multiple_bugs=False, print_blob=False, phases=[Phase.generate, Phase.shrink]))
    except AssertionError:
        check_sequence_model(ctx, cls_name, _LASTSEQ.get("ops", []))  # records the (shrunk) failing history
    except hypothesis.errors.Flaky as e:
        ctx.fail("C17.s_order", {"model": cls_name, "mode": "history"}, {"kind": "sequence", "model": cls_name, "ops": [list(o) for o in _LASTSEQ.get("ops", [])]}, f"{type(e).__name__}: not reproducible",
                 "identical histories run identically", "the pipeline behaves differently between identical runs of the same history", CHK)
    ctx.cls("sequence_histories_" + cls_name, runs["n"])
    ctx.sample({"model": cls_name, "stateful_runs": runs["n"], "rules": ["init", "add", "readd (same object again)", "remove", "run"]})


def unit_fixed_pipelines(ctx):
    """DeepJSCCModel / ChannelCodeModel with recording components; 0..6 stage SequentialModel enumerated."""
    import torch
    from kaira.models.channel_code import ChannelCodeModel
    from kaira.models.deepjscc import DeepJSCCModel
    from kaira.models.generic.sequential import SequentialModel
    for n in range(0, 7):
        for a, kw in (((), {}), ((1,), {}), ((), {"snr": 3}), ((1, 2), {"snr": 3, "csi": 4})):
            log = []
            m = SequentialModel([Rec(log, f"s{j}") for j in range(n)])
            out = m(["x"], *a, **kw)
            exp = ["x"] + [f"s{j}" for j in range(n)]
            ctx.check(out == exp and [(l[0], l[2], l[3]) for l in log] == [(f"s{j}", a, kw) for j in range(n)], "C17.s_order", {"model": "sequential", "mode": "fixed"},
                      {"kind": "fixed_seq", "n": n, "args": list(a), "kwargs": kw}, {"out": out}, {"out": exp}, "sequential model does not apply stages in order with forwarded arguments", "c17:check_fixed")
            if n >= 2:
                ctx.nontrivial("fixedseq", n, str(a), str(kw))
    # tuple-valued payloads: every stage receives the previous stage's output AS ONE OBJECT, followed by the forwarded extra arguments
    for n in range(0, 5):
        for payload in (("x",), ("x", "y"), ()):
            for a, kw in (((), {}), ((1, 2), {"snr": 3})):
                log = []
                ids = [f"s{j}" for j in range(n)]
                m = SequentialModel([RecT(log, i) for i in ids])
                case = {"kind": "fixed_seq_tuple", "n": n, "payload": list(payload), "args": list(a), "kwargs": kw}
                ok, out = ctx.call(lambda: m(payload, *a, **kw), "C17.raises", {"model": "sequential", "mode": "fixed", "payload": "tuple"}, case, checker="c17:check_fixed")
                if not ok:
                    continue
                exp_log = [(i, tuple(payload) + tuple(ids[:j]), a, kw) for j, i in enumerate(ids)]
                ctx.ev()
                ctx.check(out == tuple(payload) + tuple(ids) and log == exp_log, "C17.s_order", {"model": "sequential", "mode": "fixed", "payload": "tuple"}, case,
                          {"out": list(out) if isinstance(out, tuple) else repr(out), "calls": [l[0] for l in log]}, {"out": list(payload) + ids},
                          "with a tuple-valued payload a stage did not receive the previous output as one object plus the forwarded arguments", "c17:check_fixed")
                if n >= 2:
                    ctx.nontrivial("fixedseq_tuple", n, str(payload), str(a))
    for name, cls, roles in (("deepjscc", DeepJSCCModel, ["encoder", "constraint", "channel", "decoder"]),
                             ("channel_code", ChannelCodeModel, ["encoder", "modulator", "constraint", "channel", "demodulator", "decoder"])):
        for a, kw in (((), {}), ((), {"snr": 7}), ((5,), {"noise_var": 2})):
            log = []
            comps = {r: Rec(log, r) for r in roles}
            if name == "deepjscc":
                m = cls(comps["encoder"], comps["constraint"], comps["channel"], comps["decoder"])
            else:
                m = cls(comps["encoder"], comps["constraint"], comps["modulator"], comps["channel"], comps["demodulator"], comps["decoder"])
            out = m(["x"], *a, **kw)
            ctx.check(out == ["x"] + roles and [(l[0], l[1], l[2], l[3]) for l in log] == [(r, ["x"] + roles[:j], a, kw) for j, r in enumerate(roles)], "C17.s_order",
                      {"model": name, "mode": "fixed"}, {"kind": "fixed_" + name, "args": list(a), "kwargs": kw}, {"out": out, "calls": [l[0] for l in log]}, {"out": ["x"] + roles},
                      f"{name} pipeline does not run its components in the declared order, each exactly once", "c17:check_fixed")
            ctx.nontrivial("fixed", name, str(a), str(kw))
    for has_q, has_s, has_c, given in itertools.product((False, True), repeat=4):
        for a, kw in (((), {}), ((5,), {"snr": 3})):
            check_wyner_ziv(ctx, None, {"quantizer": has_q, "syndrome": has_s, "constraint": has_c, "side_info_given": given, "args": list(a), "kwargs": kw})
    ctx.sample({"pipelines": ["sequential 0..6 stages", "deepjscc", "channel_code"], "args": "(), (1,), snr=3, (1,2)+snr+csi"})


def check_wyner_ziv(ctx, cell, case):
    """WynerZivModel with recording stages: every combination of its optional stages (quantizer, syndrome generator, constraint), side information
    given or generated by the correlation model: documented order, each present stage exactly once, arguments forwarded as documented."""
    from kaira.models.wyner_ziv import WynerZivModel
    has_q, has_s, has_c, given, a, kw = case["quantizer"], case["syndrome"], case["constraint"], case["side_info_given"], tuple(case["args"]), dict(case["kwargs"])
    cell = cell or {"model": "wyner_ziv", "quantizer": has_q, "syndrome_generator": has_s, "constraint": has_c, "side_info": "given" if given else "generated"}
    log = []

    class Dec:
        def __call__(self, x, side, *args, **kwargs):
            log.append(("decoder", list(x), list(side), tuple(args), dict(kwargs)))
            return list(x) + ["decoder"]

    class Corr:
        def __call__(self, src):
            log.append(("correlation", list(src)))
            return ["side_of"] + list(src)
    m = WynerZivModel(Rec(log, "encoder"), Rec(log, "channel"), Dec(), correlation_model=Corr(), quantizer=Rec(log, "quantizer") if has_q else None,
                      syndrome_generator=Rec(log, "syndrome") if has_s else None, constraint=Rec(log, "constraint") if has_c else None)
    ok, out = ctx.call(lambda: m(["x"], ["given_side"] if given else None, *a, **kw), "C17.raises", cell, case, checker="c17:check_wyner_ziv")
    if not ok:
        return
    ctx.ev()
    exp, cur = [], ["x"]
    for sid, present, with_args in (("encoder", True, True), ("quantizer", has_q, True), ("syndrome", has_s, True), ("constraint", has_c, False), ("channel", True, True)):
        if present:
            exp.append((sid, list(cur), a if with_args else (), kw if with_args else {}))
            cur = cur + [sid]
    side = ["given_side"] if given else ["side_of", "x"]
    if not given:
        exp.append(("correlation", ["x"]))
    exp.append(("decoder", list(cur), side, a, kw))
    ctx.check(log == exp and out == cur + ["decoder"], "C17.w_wyner_ziv_order", cell, case, {"calls": [l[0] for l in log], "output": out}, {"calls": [e[0] for e in exp], "output": cur + ["decoder"]},
              "Wyner-Ziv pipeline does not run its present stages in the documented order, each exactly once, with arguments forwarded", "c17:check_wyner_ziv")
    ctx.nontrivial("wz", has_q, has_s, has_c, given, str(a), str(kw))
    ctx.cls("wyner_ziv_cases")


def check_fixed(ctx, cell, case):
    unit_fixed_pipelines(ctx)


# ----------------------------------------------------------------------------- parallel

def run_parallel(n, perm, workers, use_steps_api=False):
    """returns (result_dict_or_None, aggregator_input_or_None). Completion order is forced to `perm`."""
    from kaira.models.generic.parallel import ParallelModel
    started = [threading.Event() for _ in range(n)]
    release = [threading.Event() for _ in range(n)]
    returning = [threading.Event() for _ in range(n)]

    def mk(i):
        def f(x, *a, **kw):
            started[i].set()
            if not release[i].wait(10):
                raise RuntimeError("gate timeout")
            returning[i].set()
            return ("val", i, x)
        return f
    got = {}

    def agg(values):
        got["agg"] = list(values)
        return list(values)
    outs = {}
    for mode in ("dict", "agg"):
        for e in started + release + returning:
            e.clear()
        if use_steps_api:
            m = ParallelModel(max_workers=workers, aggregator=agg if mode == "agg" else None)
            for i in range(n):
                m.add_step(mk(i), f"b{i}")
        else:
            m = ParallelModel(max_workers=workers, branches=[mk(i) for i in range(n)], aggregator=agg if mode == "agg" else None)
        err = []

        def controller():
            for i in perm:
                if not started[i].wait(10):
                    err.append(f"branch {i} never started")
                    for r in release:
                        r.set()
                    return
                release[i].set()
                returning[i].wait(10)
                time.sleep(0.01)
        t = threading.Thread(target=controller, daemon=True)
        t.start()
        res = m("in")
        t.join(15)
        if err or t.is_alive():
            raise RuntimeError("harness gating failed: " + ";".join(err))
        outs[mode] = res
    names = [f"b{i}" if use_steps_api else f"branch_{i}" for i in range(n)]
    return outs["dict"], outs["agg"], names


def check_parallel(ctx, n, perm, workers, use_steps_api=False):
    cell = {"model": "parallel", "n": n, "workers": workers if workers is not None else "default"}
    case = {"kind": "parallel", "n": n, "perm": list(perm), "workers": workers, "steps_api": use_steps_api}
    d, a, names = run_parallel(n, perm, workers, use_steps_api)
    exp_vals = [["val", i, "in"] for i in range(n)]
    ctx.ev()
    dd = {k: list(v) if isinstance(v, tuple) else v for k, v in d.items()} if isinstance(d, dict) else d
    ctx.check(isinstance(d, dict) and dd == {names[i]: exp_vals[i] for i in range(n)}, "C17.p_names", cell, case, dd, {names[i]: exp_vals[i] for i in range(n)},
              "parallel model does not return each branch's result under that branch's own name", CHK)
    aa = [list(v) if isinstance(v, tuple) else v for v in a] if isinstance(a, list) else a
    ctx.check(aa == exp_vals, "C17.p_aggregator_order", cell, case, aa, exp_vals, "aggregator did not receive the results in declared branch order (completion order leaked)", CHK)
    if n >= 2 and list(perm) != list(range(n)):
        ctx.nontrivial("par", n, tuple(perm), workers, use_steps_api)
    ctx.cls(f"parallel_n{n}")


def check_parallel_history(ctx, ops, perm, workers):
    """ops: list of ("add", name) | ("remove", index) applied to a ParallelModel; then one run with forced completion order `perm`."""
    from kaira.models.generic.parallel import ParallelModel
    cell = {"model": "parallel", "mode": "history", "workers": workers if workers is not None else "default"}
    case = {"kind": "parallel_history", "ops": [list(o) for o in ops], "perm": list(perm), "workers": workers}
    started, release, returning = {}, {}, {}

    def mk(name):
        started[name], release[name], returning[name] = threading.Event(), threading.Event(), threading.Event()

        def f(x, *a, **kw):
            started[name].set()
            if not release[name].wait(10):
                raise RuntimeError("gate timeout")
            returning[name].set()
            return ("val", name)
        return f
    outs = {}
    for mode in ("dict", "agg"):
        got = {}
        m = ParallelModel(max_workers=workers, aggregator=(lambda vals: got.setdefault("agg", list(vals))) if mode == "agg" else None)
        model = []
        removed = False
        for op in ops:
            if op[0] == "add":
                m.add_step(mk(op[1]), op[1])
                model.append(op[1])
            else:
                if 0 <= op[1] < len(model):
                    m.remove_step(op[1])
                    model.pop(op[1])
                    removed = True
        if not model:
            return
        order = [model[i] for i in perm if i < len(model)]
        err = []

        def controller():
            for name in order:
                if not started[name].wait(10):
                    err.append(name)
                    for r in release.values():
                        r.set()
                    return
                release[name].set()
                returning[name].wait(10)
                time.sleep(0.01)
        t = threading.Thread(target=controller, daemon=True)
        t.start()
        res = m("in")
        t.join(15)
        if err or t.is_alive():
            raise RuntimeError("harness gating failed")
        outs[mode] = res if mode == "dict" else got.get("agg")
    ctx.ev()
    exp = [["val", nm] for nm in model]
    d = outs["dict"]
    ctx.check(isinstance(d, dict) and {k: list(v) for k, v in d.items()} == {nm: ["val", nm] for nm in model}, "C17.p_names", cell, case, str(d)[:200], None,
              "after add/remove of steps the parallel model does not return each step's result under its name", CHK)
    a = outs["agg"]
    ctx.check(a is not None and [list(v) for v in a] == exp, "C17.p_aggregator_order", cell, case, str(a)[:200], exp, "after add/remove of steps the aggregator does not receive results in the current declared order", CHK)
    if removed and len(model) >= 2:
        ctx.nontrivial("parhist", str(ops), tuple(perm), workers)
    ctx.cls("parallel_histories")


def unit_parallel_histories(ctx, n_gen):
    names = ["a", "b", "c", "d", "e", "f"]
    opst = st.lists(st.one_of(st.just(("add",)), st.tuples(st.just("remove"), st.integers(0, 3))), min_size=2, max_size=9)

    def f(t):
        raw, pseed = t
        ops, cnt, k = [], 0, 0
        for o in raw:
            if o[0] == "add" and cnt < 4 and k < len(names):
                ops.append(("add", names[k]))
                k += 1
                cnt += 1
            elif o[0] == "remove" and cnt > 0:
                idx = o[1] % cnt
                ops.append(("remove", idx))
                cnt -= 1
        if cnt < 2:
            return
        perms = list(itertools.permutations(range(cnt)))
        rng = np.random.RandomState(pseed)
        for pi in ([perms[-1]] + [perms[i] for i in rng.choice(len(perms), size=min(3, len(perms)), replace=False)]):
            check_parallel_history(ctx, ops, pi, None)
    draw_cases(st.tuples(opst, st.integers(0, 10 ** 6)), n_gen, ctx.seed * 19 + 7, f)
    # planted: remove a non-last step, then add
    for ops in ([("add", "a"), ("add", "b"), ("add", "c"), ("remove", 0), ("add", "d")], [("add", "a"), ("add", "b"), ("add", "c"), ("add", "d"), ("remove", 0), ("remove", 0), ("add", "e")],
                [("add", "a"), ("add", "b"), ("remove", 1), ("add", "c"), ("remove", 0), ("add", "d")]):
        n = sum(1 for o in ops if o[0] == "add") - sum(1 for o in ops if o[0] == "remove")
        for perm in itertools.permutations(range(n)):
            check_parallel_history(ctx, ops, perm, None)
    ctx.sample({"histories": "add/remove sequences on ParallelModel (<= 4 live steps), then a run under forced completion orders"})


def feasible(perm, w):
    return all(p < w + j for j, p in enumerate(perm))


def unit_parallel(ctx, n, workers_list):
    total = feas = 0
    for w in workers_list:
        eff = w if w is not None else 32
        for perm in itertools.permutations(range(n)):
            total += 1
            if not feasible(perm, eff):
                continue
            feas += 1
            check_parallel(ctx, n, perm, w, use_steps_api=(sum(perm) + (w or 0)) % 2 == 1)
    ctx.exhaustive(f"completion_permutations_n{n}", True)
    ctx.cls("parallel_permutations_feasible", feas)
    ctx.cls("parallel_permutations_infeasible_for_pool_size", total - feas)
    ctx.sample({"n": n, "workers": workers_list, "example_perm": list(range(n))[::-1]})


# ----------------------------------------------------------------------------- branching / feedback / MAC

def check_branching(ctx, conds, has_default, x):
    """conds: list of bools (value of each branch condition for input x), in registration order."""
    import torch
    from kaira.models.base import BaseModel
    from kaira.models.generic.branching import BranchingModel
    log = []

    class B(BaseModel):
        def __init__(self, sid):
            super().__init__()
            self.sid = sid

        def forward(self, v, *a, **kw):
            log.append((self.sid, a, kw))
            return (self.sid, v)
    cell = {"model": "branching", "default": has_default}
    case = {"kind": "branching", "conds": list(conds), "default": has_default, "x": x}
    m = BranchingModel()
    evaluated = []
    for j, c in enumerate(conds):
        def cond(v, c=c, j=j):
            evaluated.append(j)
            return torch.tensor(c) if j % 2 else c
        m.add_branch(f"br{j}", cond, B(f"br{j}"))
    if has_default:
        m.set_default_branch(B("default"))
    first = next((j for j, c in enumerate(conds) if c), None)
    ctx.ev()
    if first is None and not has_default:
        try:
            m(x)
            ctx.fail("C17.b_no_match", cell, case, "returned", "RuntimeError", checker=CHK)
        except RuntimeError:
            pass
        return
    out, name = m(x, True, 9, snr=2)
    exp = f"br{first}" if first is not None else "default"
    ctx.check(name == exp and out == (exp, x) and log == [(exp, (9,), {"snr": 2})], "C17.b_first_match", cell, case, {"branch": name, "calls": [l[0] for l in log]}, {"branch": exp},
              "branching model did not run exactly the first branch whose condition holds (else the default)", CHK)
    if sum(conds) >= 2:
        ctx.nontrivial("br", str(conds), has_default)
    ctx.cls("branching_cases")


def check_branching_history(ctx, ops):
    """ONE BranchingModel over a history of add_branch / remove_branch / set_default_branch / calls with different inputs. Branch j's condition is
    'bit x of mask_j is set' (conditions overlap freely); every call must run exactly the first currently registered branch whose condition holds
    for THAT input, else the default, else raise RuntimeError.  ops: ("add", mask) | ("remove", i) | ("default",) | ("call", x)"""
    from kaira.models.base import BaseModel
    from kaira.models.generic.branching import BranchingModel
    log = []

    class B(BaseModel):
        def __init__(self, sid):
            super().__init__()
            self.sid = sid

        def forward(self, v, *a, **kw):
            log.append(self.sid)
            return (self.sid, v)
    cell = {"model": "branching", "mode": "history"}
    case = {"kind": "branching_history", "ops": [list(o) for o in ops]}
    m = BranchingModel()
    active, has_default, fresh, calls, multi = [], False, 0, 0, 0
    for step, op in enumerate(ops):
        if op[0] == "add":
            name = f"br{fresh}"
            fresh += 1
            m.add_branch(name, (lambda v, mask=op[1]: bool((mask >> v) & 1)), B(name))
            active.append((name, op[1]))
        elif op[0] == "remove":
            if not active:
                continue
            name, _ = active.pop(op[1] % len(active))
            m.remove_branch(name)
        elif op[0] == "default":
            m.set_default_branch(B("default"))
            has_default = True
        else:
            x = op[1]
            hits = [nm for nm, mask in active if (mask >> x) & 1]
            exp = hits[0] if hits else ("default" if has_default else None)
            multi += len(hits) >= 2
            calls += 1
            del log[:]
            ctx.ev()
            try:
                out, name = m(x, True)
            except RuntimeError:
                ctx.check(exp is None, "C17.b_first_match", cell, {**case, "failing_step": step}, "RuntimeError", {"branch": exp}, "branching model raised although a branch (or the default) applies", CHK)
                continue
            ctx.check(exp is not None and name == exp and out == (exp, x) and log == [exp], "C17.b_first_match", cell, {**case, "failing_step": step}, {"branch": name, "ran": list(log)}, {"branch": exp},
                      "after this history the branching model did not run exactly the first registered branch whose condition holds for the input", CHK)
    if calls >= 2 and multi:
        ctx.nontrivial("brh", str(ops))
    ctx.cls("branching_histories")


def check_feedback(ctx, iters):
    from kaira.channels.base import BaseChannel
    from kaira.models.base import BaseModel
    from kaira.models.feedback_channel import FeedbackChannelModel
    log = []

    class M(BaseModel):
        def __init__(self, sid):
            super().__init__()
            self.sid = sid

        def forward(self, *a, **kw):
            log.append(self.sid)
            return (self.sid, len([l for l in log if l == self.sid]))

    class C(BaseChannel):
        def __init__(self, sid):
            super().__init__()
            self.sid = sid

        def forward(self, x, *a, **kw):
            log.append(self.sid)
            return (self.sid, x)
    m = FeedbackChannelModel(M("enc"), C("fwd"), M("dec"), M("fbgen"), C("fbch"), M("fbproc"), max_iterations=iters)
    res = m("data")
    exp = []
    for i in range(iters):
        if i > 0:
            exp.append("fbproc")
        exp += ["enc", "fwd", "dec", "fbgen", "fbch"]
    cell = {"model": "feedback"}
    case = {"kind": "feedback", "iters": iters}
    ctx.check(log == exp and len(res["iterations"]) == iters and len(res["feedback_history"]) == iters, "C17.f_rounds", cell, case, {"calls": log, "iterations": len(res["iterations"])},
              {"calls": exp, "iterations": iters}, "feedback model did not perform exactly the configured number of rounds in the documented order", CHK)
    ctx.nontrivial("fb", iters)
    ctx.cls("feedback_cases")


def check_feedback_tensors(ctx, iters, mode):
    """Tensor-valued stages. mode: 'changing' (every round's feedback differs), 'constant' (the same feedback tensor every round, e.g. a one-bit
    NACK over a bad link), 'saturating' (changes, then stays).  The number of rounds is max_iterations whatever the feedback looks like."""
    import torch
    from kaira.channels.base import BaseChannel
    from kaira.models.base import BaseModel
    from kaira.models.feedback_channel import FeedbackChannelModel
    log = []

    class Enc(BaseModel):
        def forward(self, x, state=None, *a, **kw):
            log.append("enc")
            return x + (0.0 if state is None else state.mean())

    class Dec(BaseModel):
        def forward(self, y, *a, **kw):
            log.append("dec")
            return y * 0.5

    class FbGen(BaseModel):
        def __init__(self):
            super().__init__()
            self.n = 0

        def forward(self, decoded, data, *a, **kw):
            log.append("fbgen")
            self.n += 1
            if mode == "constant":
                return torch.zeros(1)
            if mode == "saturating":
                return torch.tensor([float(min(self.n, 2))])
            return torch.tensor([float(self.n)])

    class FbProc(BaseModel):
        def forward(self, fb, *a, **kw):
            log.append("fbproc")
            return fb

    class Ch(BaseChannel):
        def __init__(self, sid):
            super().__init__()
            self.sid = sid

        def forward(self, x, *a, **kw):
            log.append(self.sid)
            return x
    m = FeedbackChannelModel(Enc(), Ch("fwd"), Dec(), FbGen(), Ch("fbch"), FbProc(), max_iterations=iters)
    res = m(torch.ones(2, 3))
    exp = []
    for i in range(iters):
        if i > 0:
            exp.append("fbproc")
        exp += ["enc", "fwd", "dec", "fbgen", "fbch"]
    cell = {"model": "feedback", "feedback": mode}
    case = {"kind": "feedback_tensors", "iters": iters, "mode": mode}
    ctx.ev()
    ctx.check(log == exp and len(res["iterations"]) == iters and len(res["feedback_history"]) == iters, "C17.f_rounds", cell, case, {"rounds": log.count("enc"), "iterations": len(res["iterations"])},
              {"rounds": iters}, "feedback model did not perform exactly the configured number of rounds in the documented order", CHK)
    ctx.nontrivial("fbt", iters, mode)
    ctx.cls("feedback_cases")


def check_mac(ctx, enc_ids, joint):
    """enc_ids: list of encoder identities per user (repeats = shared instances)."""
    import torch
    from kaira.channels.base import BaseChannel
    from kaira.constraints.base import BaseConstraint
    from kaira.models.base import BaseModel
    from kaira.models.multiple_access_channel import MultipleAccessChannelModel
    log = []
    n = len(enc_ids)

    class Enc(BaseModel):
        def __init__(self, w):
            super().__init__()
            self.w = w

        def forward(self, x, *a, **kw):
            log.append(("enc", self.w))
            return x * self.w

    class Con(BaseConstraint):
        def forward(self, x, *a, **kw):
            log.append(("constraint", x.clone()))
            return x + 1000.0

    class Ch(BaseChannel):
        def forward(self, x, *a, **kw):
            log.append(("channel", x.clone()))
            return x + 0.5

    class Dec(BaseModel):
        def __init__(self, sid):
            super().__init__()
            self.sid = sid

        def forward(self, x, *a, **kw):
            log.append(("dec", self.sid, x.clone()))
            return x[:, :1] * 0 + self.sid
    weights = {i: float(10 ** i) for i in set(enc_ids)}
    inst = {i: Enc(weights[i]) for i in set(enc_ids)}
    encs = [inst[i] for i in enc_ids]
    decs = [Dec(7.0)] if joint else [Dec(float(j)) for j in range(n)]
    cell = {"model": "mac", "users": n, "joint": joint, "repeated_encoders": len(set(enc_ids)) < n}
    case = {"kind": "mac", "enc_ids": list(enc_ids), "joint": joint}
    ok, m = ctx.call(lambda: MultipleAccessChannelModel(encoders=encs, decoders=decs, channel=Ch(), power_constraint=Con(), num_devices=n), "C17.m_construct", cell, case, checker=CHK)
    if not ok:
        return
    xs = [torch.full((2, 3), float(j + 1)) for j in range(n)]
    ok, out = ctx.call(lambda: m(xs), "C17.m_raises", cell, case, checker=CHK)
    if not ok:
        return
    exp_sum = sum(xs[j] * weights[enc_ids[j]] for j in range(n))
    cons = [l for l in log if l[0] == "constraint"]
    chs = [l for l in log if l[0] == "channel"]
    dcs = [l for l in log if l[0] == "dec"]
    good = (len(cons) == 1 and torch.allclose(cons[0][1], exp_sum) and len(chs) == 1 and torch.allclose(chs[0][1], exp_sum + 1000.0)
            and [l[1] for l in log if l[0] == "enc"] == [weights[i] for i in enc_ids]
            and len(dcs) == (1 if joint else n) and all(torch.allclose(d[2], exp_sum + 1000.5) for d in dcs) and [d[1] for d in dcs] == ([7.0] if joint else [float(j) for j in range(n)]))
    ctx.check(good, "C17.m_superposition", cell, case, {"encoders_used": [l[1] for l in log if l[0] == "enc"], "constraint_calls": len(cons), "channel_calls": len(chs),
                                                         "constraint_input_00": float(cons[0][1][0, 0]) if cons else None}, {"encoders": [weights[i] for i in enc_ids], "sum_00": float(exp_sum[0, 0])},
              "multiple-access model does not superimpose every user's own encoded signal before one constraint and one channel use", CHK)
    ctx.nontrivial("mac", tuple(enc_ids), joint)
    ctx.cls("mac_cases")


def check_mac_aliasing(ctx, n, shared_input):
    """pass-through encoders (the encoded signal *is* the input tensor) and one tensor object fed to every user:
    the superposition is still the plain sum, user inputs are not modified, a second run gives the same result."""
    import torch
    from kaira.channels.base import BaseChannel
    from kaira.constraints.base import BaseConstraint
    from kaira.models.base import BaseModel
    from kaira.models.multiple_access_channel import MultipleAccessChannelModel
    seen = []

    class Enc(BaseModel):
        def forward(self, x, *a, **kw):
            return x

    class Con(BaseConstraint):
        def forward(self, x, *a, **kw):
            seen.append(x.clone())
            return x

    class Ch(BaseChannel):
        def forward(self, x, *a, **kw):
            return x

    class Dec(BaseModel):
        def forward(self, x, *a, **kw):
            return x.clone()
    cell = {"model": "mac", "users": n, "encoders": "pass_through", "shared_input": shared_input}
    case = {"kind": "mac_alias", "n": n, "shared_input": shared_input}
    m = MultipleAccessChannelModel(encoders=[Enc() for _ in range(n)], decoders=[Dec()], channel=Ch(), power_constraint=Con(), num_devices=n)
    if shared_input:
        t = torch.arange(1.0, 7.0).reshape(2, 3)
        xs = [t for _ in range(n)]
    else:
        xs = [torch.full((2, 3), float(j + 1)) for j in range(n)]
    before = [x.clone() for x in xs]
    exp = sum(before)
    ok, out1 = ctx.call(lambda: m(xs), "C17.m_raises", cell, case, checker=CHK)
    if not ok:
        return
    ok, out2 = ctx.call(lambda: m(xs), "C17.m_raises", cell, case, checker=CHK)
    if not ok:
        return
    ctx.ev()
    ctx.nontrivial("macalias", n, shared_input)
    good = len(seen) == 2 and torch.allclose(seen[0], exp) and torch.allclose(seen[1], exp) and all(torch.equal(a, b) for a, b in zip(xs, before)) and torch.allclose(out1, out2)
    ctx.check(bool(good), "C17.m_superposition", cell, case, {"first_sum_00": float(seen[0][0, 0]) if seen else None, "second_sum_00": float(seen[1][0, 0]) if len(seen) > 1 else None,
                                                              "inputs_unchanged": all(torch.equal(a, b) for a, b in zip(xs, before))}, {"sum_00": float(exp[0, 0])},
              "with pass-through encoders the superposition is not the plain sum of the users' signals (or user inputs are overwritten)", CHK)


def unit_misc(ctx, n_gen):
    for L in range(0, 5):
        for conds in itertools.product([False, True], repeat=L):
            for d in (False, True):
                check_branching(ctx, conds, d, 5)
    ctx.exhaustive("branching_condition_tables_len<=4", True)
    for it in range(1, 6):
        check_feedback(ctx, it)
        for mode in ("changing", "constant", "saturating"):
            check_feedback_tensors(ctx, it, mode)
    for n in range(1, 5):
        for ids in itertools.product(range(n), repeat=n):
            if n <= 3 or len(set(ids)) in (1, 2, n):
                for joint in (True, False):
                    check_mac(ctx, ids, joint)

    for n in range(1, 5):
        for shared in (False, True):
            check_mac_aliasing(ctx, n, shared)

    def f(t):
        conds, d = t
        check_branching(ctx, conds, d, 1)
    draw_cases(st.tuples(st.lists(st.booleans(), min_size=0, max_size=8), st.booleans()), n_gen, ctx.seed * 3 + 1, f)
    op = st.one_of(st.tuples(st.just("add"), st.integers(0, 63)), st.tuples(st.just("call"), st.integers(0, 5)), st.tuples(st.just("call"), st.integers(0, 5)),
                   st.tuples(st.just("remove"), st.integers(0, 7)), st.just(("default",)))
    for fixed in ([("add", 0b100000), ("add", 0b110000), ("add", 0b111111), ("call", 5), ("call", 4), ("call", 5), ("call", 0), ("call", 4), ("call", 5)],
                  [("add", 1), ("add", 3), ("call", 1), ("call", 0), ("remove", 0), ("call", 0), ("call", 2), ("default",), ("call", 2)]):
        check_branching_history(ctx, fixed)
    draw_cases(st.lists(op, min_size=2, max_size=14), n_gen * 3, ctx.seed * 3 + 2, lambda ops: check_branching_history(ctx, [tuple(o) for o in ops]))
    ctx.sample({"branching": "all condition tables up to 4 branches + generated up to 8", "feedback_rounds": [1, 2, 3, 4, 5], "mac_users": [1, 2, 3, 4]})


def check_case(ctx, cell, case):
    k = case["kind"]
    if k == "sequence":
        check_sequence_model(ctx, case["model"], [tuple(o) for o in case["ops"]])
    elif k == "parallel":
        check_parallel(ctx, case["n"], case["perm"], case["workers"], case.get("steps_api", False))
    elif k == "parallel_history":
        check_parallel_history(ctx, [tuple(o) for o in case["ops"]], case["perm"], case["workers"])
    elif k == "branching":
        check_branching(ctx, case["conds"], case["default"], case["x"])
    elif k == "branching_history":
        check_branching_history(ctx, [tuple(o) for o in case["ops"]])
    elif k == "feedback":
        check_feedback(ctx, case["iters"])
    elif k == "feedback_tensors":
        check_feedback_tensors(ctx, case["iters"], case["mode"])
    elif k == "mac_alias":
        check_mac_aliasing(ctx, case["n"], case["shared_input"])
    elif k == "mac":
        check_mac(ctx, case["enc_ids"], case["joint"])


def units(tier, seed):
    T = tier == "thorough"
    us = [Unit("fixed_pipelines", "c17:unit_fixed_pipelines", {}, 1), Unit("misc", "c17:unit_misc", {"n_gen": 2000 if T else 200}, 3)]
    for cls_name in ("sequential", "configurable", "deepjscc", "channel_code"):
        us.append(Unit(f"sequence_sm_{cls_name}", "c17:unit_sequence_stateful", {"cls_name": cls_name, "examples": 6000 if T else 150, "steps": 20 if T else 12}, 4))
    us.append(Unit("parallel_histories", "c17:unit_parallel_histories", {"n_gen": 2500 if T else 40}, 5))
    nmax = 5 if T else 4
    for n in range(1, nmax + 1):
        for w in list(range(1, n + 1)) + [None]:
            us.append(Unit(f"parallel_n{n}_w{w}", "c17:unit_parallel", {"n": n, "workers_list": [w]}, {1: 1, 2: 1, 3: 2, 4: 6, 5: 30}[n]))
    return us
