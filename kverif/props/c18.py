"""C18 — GF(2)[X] is a Euclidean ring; GF(2^m), 1<=m<=16, is a field with primitive x."""
from __future__ import annotations

import itertools

from hypothesis import strategies as st

from ..core import Unit
from ..hyp import draw_cases
from ..ref import poly as R

PROPERTY = "C18"
RULE = ("polynomial pairs: all (a,b) with deg<8 enumerated + Hypothesis-generated pairs/triples up to degree 200; "
        "field elements: all pairs m<=8 (quick m<=7) and all triples m<=5 enumerated, Hypothesis-generated elements for larger m; "
        "primitive-element order for every m=1..16; minimal polynomials for every element m<=8 and generated elements above. "
        "A case is non-trivial when no operand is 0 or 1; distinct = distinct (clause, m, operands).")
ASSUMPTIONS = ["kverif/ref/poly.py (carry-less arithmetic on Python ints) is the trusted reference; it is self-checked in setup",
               "field elements are compared through their integer representation .value"]
CHK = "c18:check_case"


def _imp():
    from kaira.models.fec.algebra import BinaryPolynomial, FiniteBifield, FiniteBifieldElement
    return BinaryPolynomial, FiniteBifield, FiniteBifieldElement


# ----------------------------------------------------------------------------- polynomials

def check_poly_pair(ctx, a: int, b: int, cell=None):
    BP, _, _ = _imp()
    cell = cell or {"kind": "poly"}
    A, B = BP(a), BP(b)
    case = {"kind": "poly_pair", "a": a, "b": b}
    if a > 1 and b > 1:
        ctx.nontrivial("pp", a, b)

    def ck(ok, clause, obs=None, exp=None, what=""):
        ctx.check(ok, clause, cell, case, obs, exp, what, CHK)

    # ring laws
    p = (A * B).value
    ck(p == R.mul(a, b), "C18.mul", p, R.mul(a, b), "product differs from carry-less product")
    ck((B * A).value == p, "C18.mul_comm")
    if a and b:
        ck((A * B).degree == A.degree + B.degree, "C18.deg_add", (A * B).degree, A.degree + B.degree)
    if b == 0:
        for name, f in (("div", lambda: A.div(B)), ("mod", lambda: A % B)):
            try:
                r = f()
                ck(False, "C18.zero_divisor", getattr(r, "value", r), "exception", f"{name} by the zero polynomial returned a value")
            except Exception:
                ck(True, "C18.zero_divisor")
    else:
        q, r = A.div(B).value, (A % B).value
        rq, rr = R.divmod2(a, b)
        ck(R.mul(q, b) ^ r == a, "C18.euclid", {"q": q, "r": r}, {"q": rq, "r": rr}, "a != q*b + r")
        ck(R.deg(r) < R.deg(b), "C18.euclid_deg", r, rr, "deg r >= deg b")
        ck((q, r) == (rq, rr), "C18.euclid_ref", {"q": q, "r": r}, {"q": rq, "r": rr})
    g = A.gcd(B).value
    rg = R.gcd(a, b)
    ck(g == rg, "C18.gcd", g, rg, "gcd differs from Euclid reference")
    if g:
        ck(R.mod(a, g) == 0 and R.mod(b, g) == 0, "C18.gcd_divides", g, rg)
        # Bezout: gcd is a combination of a and b -- via reference extended Euclid on the library's g
        _, s, t = R.xgcd(a, b)
        ck(R.mul(s, a) ^ R.mul(t, b) == g, "C18.bezout", g, rg, "library gcd is not s*a+t*b for the Bezout pair of the reference")
    l = A.lcm(B).value
    ck(l == R.lcm(a, b), "C18.lcm", l, R.lcm(a, b))
    ck(R.mul(l, g) == R.mul(a, b) or (a == 0 or b == 0), "C18.lcm_gcd", {"lcm": l, "gcd": g}, R.mul(a, b), "lcm*gcd != a*b")


def check_poly_triple(ctx, a, b, c, cell=None):
    BP, _, _ = _imp()
    cell = cell or {"kind": "poly"}
    A, B, C = BP(a), BP(b), BP(c)
    case = {"kind": "poly_triple", "a": a, "b": b, "c": c}
    if min(a, b, c) > 1:
        ctx.nontrivial("pt", a, b, c)
    ctx.check(((A * B) * C).value == (A * (B * C)).value, "C18.mul_assoc", cell, case, checker=CHK)
    ctx.check((A * BP(b ^ c)).value == (A * B).value ^ (A * C).value, "C18.mul_distrib", cell, case, checker=CHK)


def unit_poly_exhaustive(ctx, lo, hi):
    """all pairs (a,b), a in [lo,hi), b in [0,256) — degree < 8."""
    for a in range(lo, hi):
        for b in range(256):
            check_poly_pair(ctx, a, b)
    ctx.exhaustive("poly_pairs_deg_lt_8", True)
    ctx.sample({"kind": "poly_pair", "a": lo + 3, "b": 37})
    ctx.cls("poly_pairs_enumerated", (hi - lo) * 256)


def unit_poly_generated(ctx, n, shard):
    big = st.integers(0, 200).flatmap(lambda d: st.integers(0, (1 << (d + 1)) - 1))
    first = []

    def f(t):
        a, b, c = t
        check_poly_pair(ctx, a, b)
        check_poly_triple(ctx, a, b, c)
        d = max(R.deg(a), R.deg(b))
        ctx.cls("poly_gen_deg<8" if d < 8 else "poly_gen_deg<64" if d < 64 else "poly_gen_deg>=64")
        if len(first) < 2 and d > 20:
            first.append(1)
            ctx.sample({"kind": "poly_triple", "a": a, "b": b, "c": c})

    draw_cases(st.tuples(big, big, big), n, ctx.seed * 1000 + shard, f)
    # structured: multiples, so that gcd/lcm are non-trivial
    def g(t):
        a, b, c = t
        check_poly_pair(ctx, R.mul(a, c), R.mul(b, c))
        ctx.cls("poly_gen_common_factor")
    small = st.integers(0, 40).flatmap(lambda d: st.integers(0, (1 << (d + 1)) - 1))
    draw_cases(st.tuples(small, small, small), n, ctx.seed * 1000 + shard + 500, g)


# ----------------------------------------------------------------------------- fields

def _field(m):
    _, FB, _ = _imp()
    return FB(m)


def unit_field_structure(ctx, m):
    """modulus irreducible + x primitive (reference), and the same through the library's own ** ."""
    F = _field(m)
    f = F.modulus.value
    cell = {"kind": "field", "m": m}
    case = {"kind": "field_structure", "m": m}
    n = (1 << m) - 1
    ctx.nontrivial("struct", m)
    ctx.check(R.deg(f) == m, "C18.modulus_degree", cell, case, R.deg(f), m, checker=CHK)
    ctx.check(R.is_irreducible(f), "C18.modulus_irreducible", cell, case, bin(f), "irreducible polynomial", "field modulus is reducible: not a field", CHK)
    if R.deg(f) == m and (f & 1):
        o = R.order_of_x(f) if m > 1 else 1
        ctx.check(o == n, "C18.primitive_order", cell, case, o, n, "designated primitive element x has order != 2^m-1", CHK)
    a = F.primitive_element()
    one = (a ** n).value
    ctx.check(one == 1, "C18.primitive_pow_full", cell, case, one, 1, "alpha^(2^m-1) != 1", CHK)
    for p in R.prime_factors(n) if n > 1 else []:
        v = (a ** (n // p)).value
        ctx.check(v != 1, "C18.primitive_pow_sub", cell, {**case, "p": p}, v, "!= 1", f"alpha^((2^m-1)/{p}) == 1: alpha is not primitive", CHK)
    # all elements enumerate without repetition through powers (m <= 12 cheap)
    if m <= 12:
        seen, t = set(), F(1)
        for _ in range(n):
            seen.add(t.value)
            t = t * a
        ctx.check(len(seen) == n and 0 not in seen, "C18.primitive_generates", cell, case, len(seen), n, "powers of alpha do not enumerate GF(2^m)*", CHK)
    ctx.check(F.zero.value == 0 and F.one.value == 1 and F.size == 1 << m, "C18.identities", cell, case, checker=CHK)
    ctx.sample(case)


def check_field_pair(ctx, m, a, b):
    F = _field(m)
    f = F.modulus.value
    cell = {"kind": "field", "m": m}
    case = {"kind": "field_pair", "m": m, "a": a, "b": b}
    A, B = F(a), F(b)
    if a > 1 and b > 1:
        ctx.nontrivial("fp", m, a, b)
    p = (A * B).value
    ctx.check(p == R.mulmod(a, b, f), "C18.f_mul", cell, case, p, R.mulmod(a, b, f), "product != polynomial product mod modulus", CHK)
    ctx.check((B * A).value == p, "C18.f_mul_comm", cell, case, checker=CHK)
    ctx.check((A + B).value == a ^ b and (B + A).value == a ^ b, "C18.f_add", cell, case, checker=CHK)
    if a and b:
        ctx.check(p != 0, "C18.f_zero_divisor", cell, case, p, "non-zero", "two non-zero elements multiply to zero", CHK)


def check_field_elem(ctx, m, a, exps=(), minpoly=True):
    F = _field(m)
    f = F.modulus.value
    n = (1 << m) - 1
    cell = {"kind": "field", "m": m}
    case = {"kind": "field_elem", "m": m, "a": a, "exps": list(exps), "minpoly": minpoly}
    A = F(a)
    if a > 1:
        ctx.nontrivial("fe", m, a)
    ctx.check((A + A).value == 0, "C18.f_char2", cell, case, checker=CHK)
    ctx.check((A * F.one).value == a and (A + F.zero).value == a and (A * F.zero).value == 0, "C18.f_identities", cell, case, checker=CHK)
    if a == 0:
        try:
            A.inverse()
            ctx.check(False, "C18.f_inverse_zero", cell, case, "value", "exception", checker=CHK)
        except Exception:
            ctx.check(True, "C18.f_inverse_zero", cell, case, checker=CHK)
    else:
        inv = A.inverse()
        ctx.check((A * inv).value == 1, "C18.f_inverse", cell, case, (A * inv).value, 1, "a * inverse(a) != 1", CHK)
        ctx.check(inv.value == (A ** (n - 1)).value if n > 1 else inv.value == 1, "C18.f_inverse_fermat", cell, case, checker=CHK)
        ctx.check((A ** n).value == 1, "C18.f_pow_order", cell, case, (A ** n).value, 1, "a^(2^m-1) != 1", CHK)
    for e in exps:
        got = (A ** e).value
        # repeated product through the library's own *
        t = F(1)
        for _ in range(min(e, 64)):
            t = t * A
        if e <= 64:
            ctx.check(got == t.value, "C18.f_pow_repeated", cell, {**case, "e": e}, got, t.value, "a**e != a*a*...*a", CHK)
        ctx.check(got == R.powmod(a, e, f), "C18.f_pow_ref", cell, {**case, "e": e}, got, R.powmod(a, e, f), checker=CHK)
    # conjugates: orbit under squaring
    conj = [c.value for c in A.conjugates()]
    orbit, c = [], a
    while c not in orbit:
        orbit.append(c)
        c = R.mulmod(c, c, f)
    ctx.check(conj == orbit, "C18.conjugates", cell, case, conj, orbit, "conjugates() is not the Frobenius orbit", CHK)
    # trace: sum of a^(2^i), i<m ; in {0,1}
    tr, c = 0, a
    for _ in range(m):
        tr ^= c
        c = R.mulmod(c, c, f)
    got = A.trace()
    ctx.check(tr in (0, 1) and got == tr, "C18.trace", cell, case, got, tr, "trace != sum of the Frobenius orbit", CHK)
    if minpoly:
        if hasattr(A, "_minimal_poly"):
            try:
                del A._minimal_poly
            except Exception:
                pass
        ok, mpo = ctx.call(A.minimal_polynomial, "C18.minpoly_exists", cell, case, "minimal_polynomial() raised", CHK)
        if not ok:
            return
        mp = mpo.value
        ref_ok = True
        try:
            ref = R.minimal_polynomial_of(a, f)
        except ArithmeticError:
            ref, ref_ok = None, False
        ctx.check(R.eval_in_field(mp, a, f) == 0, "C18.minpoly_vanishes", cell, case, mp, ref, "minimal polynomial does not vanish at the element", CHK)
        ctx.check(R.is_irreducible(mp) or mp == 0b10 and a == 0, "C18.minpoly_irreducible", cell, case, mp, ref, checker=CHK)
        ctx.check(R.deg(mp) == len(orbit), "C18.minpoly_degree", cell, case, R.deg(mp), len(orbit), checker=CHK)
        if ref_ok:
            ctx.check(mp == ref, "C18.minpoly_ref", cell, case, mp, ref, "minimal polynomial differs from the cyclotomic-coset product", CHK)


def check_field_triple(ctx, m, a, b, c):
    F = _field(m)
    cell = {"kind": "field", "m": m}
    case = {"kind": "field_triple", "m": m, "a": a, "b": b, "c": c}
    A, B, C = F(a), F(b), F(c)
    if min(a, b, c) > 1:
        ctx.nontrivial("ft", m, a, b, c)
    ctx.check(((A * B) * C).value == (A * (B * C)).value, "C18.f_mul_assoc", cell, case, checker=CHK)
    ctx.check((A * (B + C)).value == ((A * B) + (A * C)).value, "C18.f_distrib", cell, case, checker=CHK)
    ctx.check(((A + B) + C).value == (A + (B + C)).value, "C18.f_add_assoc", cell, case, checker=CHK)


def unit_field_pairs_exhaustive(ctx, m, lo, hi):
    size = 1 << m
    for a in range(lo, hi):
        for b in range(size):
            check_field_pair(ctx, m, a, b)
    ctx.exhaustive(f"field_pairs_m{m}", True)
    ctx.cls(f"field_pairs_enumerated_m{m}", (hi - lo) * size)
    ctx.sample({"kind": "field_pair", "m": m, "a": lo + 1, "b": size - 1})


def unit_field_triples_exhaustive(ctx, m):
    size = 1 << m
    for a, b, c in itertools.product(range(size), repeat=3):
        check_field_triple(ctx, m, a, b, c)
    ctx.exhaustive(f"field_triples_m{m}", True)
    ctx.cls(f"field_triples_enumerated_m{m}", size ** 3)
    ctx.sample({"kind": "field_triple", "m": m, "a": 2, "b": 3, "c": size - 1})


def unit_field_elems_exhaustive(ctx, m):
    size = 1 << m
    n = size - 1
    for a in range(size):
        check_field_elem(ctx, m, a, exps=(0, 1, 2, 3, 5, n, n + 1, 2 * n + 3), minpoly=True)
    ctx.exhaustive(f"field_elems_m{m}", True)
    ctx.cls(f"field_elems_enumerated_m{m}", size)
    ctx.sample({"kind": "field_elem", "m": m, "a": size - 2})


def unit_field_generated(ctx, m, n_pairs, n_minpoly):
    size = 1 << m
    el = st.integers(0, size - 1)

    def f(t):
        a, b, c, e = t
        check_field_pair(ctx, m, a, b)
        check_field_triple(ctx, m, a, b, c)
        check_field_elem(ctx, m, a, exps=(e, e % 50), minpoly=False)
        ctx.cls(f"field_generated_m{m}")
    draw_cases(st.tuples(el, el, el, st.integers(0, 3 * size)), n_pairs, ctx.seed * 100 + m, f)

    def g(a):
        check_field_elem(ctx, m, a, exps=(), minpoly=True)
        ctx.cls(f"field_minpoly_generated_m{m}")
    if n_minpoly:
        draw_cases(el, n_minpoly, ctx.seed * 100 + m + 50, g)
        # elements of proper subfields have short orbits — plant them (cheap and a distinct class)
        for d in range(1, m):
            if m % d == 0 and d > 1:
                a = R.powmod(2, ((1 << m) - 1) // ((1 << d) - 1), _field(m).modulus.value) if R.is_irreducible(_field(m).modulus.value) else 1
                check_field_elem(ctx, m, a, exps=(), minpoly=True)
                ctx.cls(f"field_minpoly_subfield_m{m}")
    ctx.sample({"kind": "field_generated", "m": m})


def unit_field_mixed(ctx, n):
    """All fields m=1..16 live in ONE process and are used interleaved (consecutive cases belong to different fields; field objects are
    created once and kept, and fresh ones are created in between): per-field tables or caches must not leak between fields."""
    keep = {m: _field(m) for m in range(1, 17)}

    def f(t):
        m, a, b, c, e = t
        size = 1 << m
        a, b, c = a % size, b % size, c % size
        check_field_pair(ctx, m, a, b)
        check_field_triple(ctx, m, a, b, c)
        check_field_elem(ctx, m, a, exps=(e % (3 * size), e % 50), minpoly=(m <= 10))
        # the long-lived object of that field agrees with the fresh one
        F = keep[m]
        fmod = F.modulus.value
        ctx.check((F(a) * F(b)).value == R.mulmod(a, b, fmod), "C18.f_mul", {"kind": "field", "m": m, "mode": "interleaved"}, {"kind": "field_pair", "m": m, "a": a, "b": b}, None, None,
                  "product != polynomial product mod modulus (field object kept while other fields were used)", CHK)
        ctx.cls("field_mixed_cases")
    draw_cases(st.tuples(st.integers(1, 16), st.integers(0, 65535), st.integers(0, 65535), st.integers(0, 65535), st.integers(0, 200000)), n, ctx.seed * 100 + 77, f)
    ctx.sample({"kind": "field_mixed", "fields": "m=1..16 interleaved in one process"})


# ----------------------------------------------------------------------------- plumbing

def unit_fuzz(ctx, runs):
    """atheris campaign over (op, operands): polynomial ring ops and field mul/pow/inverse with the reference as oracle inside the target."""
    from ..fuzz import run_atheris
    res = run_atheris("poly", runs=runs, seed=ctx.seed)
    ctx.cls("atheris_executions", res.get("executions", 0))
    ctx.ev(res.get("executions", 0))
    ctx.nontrivial("fuzz", 1)
    ctx.nontrivial("fuzz", 2)
    if res.get("skipped"):
        ctx.note("atheris: " + res["skipped"])
        return
    for fnd in res.get("findings", []):
        if fnd.get("kind") == "poly_pair":
            check_poly_pair(ctx, fnd["a"], fnd["b"])
        else:
            check_field_pair(ctx, fnd["m"], fnd["a"], fnd["b"])
            check_field_elem(ctx, fnd["m"], fnd["a"], exps=(fnd.get("e", 0),), minpoly=False)
    ctx.sample({"fuzz_target": "poly", "executions": res.get("executions", 0), "findings": len(res.get("findings", []))})


def check_case(ctx, cell, case):
    k = case["kind"]
    if k == "poly_pair":
        check_poly_pair(ctx, case["a"], case["b"])
    elif k == "poly_triple":
        check_poly_triple(ctx, case["a"], case["b"], case["c"])
    elif k == "field_structure":
        unit_field_structure(ctx, case["m"])
    elif k == "field_pair":
        check_field_pair(ctx, case["m"], case["a"], case["b"])
    elif k == "field_triple":
        check_field_triple(ctx, case["m"], case["a"], case["b"], case["c"])
    elif k == "field_elem":
        exps = list(case.get("exps", []))
        if "e" in case:
            exps.append(case["e"])
        check_field_elem(ctx, case["m"], case["a"], exps=exps, minpoly=case.get("minpoly", True))
    else:
        raise ValueError(k)


def units(tier, seed):
    T = tier == "thorough"
    us = []
    for i in range(8):
        us.append(Unit(f"poly_exh_{i}", "c18:unit_poly_exhaustive", {"lo": 32 * i, "hi": 32 * (i + 1)}, 3))
    for s in range(4):
        us.append(Unit(f"poly_gen_{s}", "c18:unit_poly_generated", {"n": 4000 if T else 600, "shard": s}, 3))
    for m in range(1, 17):
        us.append(Unit(f"field_struct_m{m}", "c18:unit_field_structure", {"m": m}, 1 if m < 13 else 2))
    max_pairs = 10 if T else 7
    for m in range(1, max_pairs + 1):
        size = 1 << m
        shards = max(1, size * size // 16384)
        step = size // shards
        for i in range(shards):
            us.append(Unit(f"field_pairs_m{m}_{i}", "c18:unit_field_pairs_exhaustive", {"m": m, "lo": i * step, "hi": (i + 1) * step}, 4))
    for m in range(1, 6 if T else 5):
        us.append(Unit(f"field_triples_m{m}", "c18:unit_field_triples_exhaustive", {"m": m}, 2 ** (3 * m - 10)))
    for m in range(1, 9):
        us.append(Unit(f"field_elems_m{m}", "c18:unit_field_elems_exhaustive", {"m": m}, m))
    for m in range(6 if not T else 9, 17):
        if m <= 12:
            nm = 64 if T else 12
        else:
            nm = 16 if T else 1
        us.append(Unit(f"field_gen_m{m}", "c18:unit_field_generated", {"m": m, "n_pairs": 3000 if T else 400, "n_minpoly": nm}, 5 + (m > 12) * 20))
    us.append(Unit("field_mixed", "c18:unit_field_mixed", {"n": 6000 if T else 500}, 5))
    us.append(Unit("fuzz_poly", "c18:unit_fuzz", {"runs": 2000000 if T else 100000}, 8))
    return us
