"""C16 — error-rate metrics are exact counts; the streaming form is partition independent."""
from __future__ import annotations

import itertools

import hypothesis
import numpy as np
from hypothesis import HealthCheck, Phase, settings
from hypothesis import strategies as st
from hypothesis.stateful import RuleBasedStateMachine, invariant, precondition, rule, run_state_machine_as_test

from ..core import Unit
from ..hyp import draw_cases

PROPERTY = "C16"
RULE = ("one-shot: Hypothesis-generated and adversarial binary tensor pairs (all-equal, all-different, a single difference at every position, random) x shapes 1-D..3-D x "
        "block sizes (divisors; non-divisors must raise) x real/complex forms, for BitErrorRate, BlockErrorRate (and its SER/FER aliases) and the StandardMetrics helpers; "
        "histories: every sequence of length<=5 (thorough 6) over {update(b1),update(b2),update(b3),compute,reset}, Hypothesis RuleBasedStateMachine histories (update/compute/"
        "reset/forward) up to 50 (thorough 200) steps, and partitions of one data set cut and ordered at generated points. Non-trivial: history with an update after a reset or "
        ">=2 updates of different sizes; one-shot: 0<errors<total. Distinct = (metric, history or input hash).")
ASSUMPTIONS = ["reference counters are exact Python integers (kverif/props/c16.py:Model); rates compared as float32(count/total) within 1 float32 ulp",
               "BlockErrorRate treats dim 0 as the batch and requires the remaining elements per item to be divisible by block_size (documented); 1-D inputs with block_size>1 "
               "therefore raise and are counted as rejections", "StandardMetrics.block_error_rate is exercised on 1-D inputs of divisible length (its documented domain)"]
CHK = "c16:check_case"
F32 = 1.2e-7


class Model:
    """exact counters for BER / BLER."""

    def __init__(self, kind, block_size=None):
        self.kind, self.B = kind, block_size
        self.err = self.tot = 0

    @staticmethod
    def count(kind, B, x, y):
        x, y = np.asarray(x), np.asarray(y)
        if kind == "ber":
            t = 0.5 if B is None else float(B)  # for the BER metric the second cell field carries the decision threshold option
            if np.iscomplexobj(x):
                d = ((x.real > t) != (y.real > t)).sum() + ((x.imag > t) != (y.imag > t)).sum()
                return int(d), int(x.size * 2)
            return int(((x > t) != (y > t)).sum()), int(x.size)
        diff = (x != y)
        bs = x.shape[0]
        d2 = diff.reshape(bs, -1)
        if B is None:
            blk = d2.any(axis=1)
        else:
            blk = d2.reshape(bs, -1, B).any(axis=2)
        return int(blk.sum()), int(blk.size)

    def update(self, x, y):
        e, t = self.count(self.kind, self.B, x, y)
        self.err += e
        self.tot += t

    def reset(self):
        self.err = self.tot = 0

    def value(self):
        return np.float32(self.err / max(self.tot, 1))


def make_metric(kind, B):
    from kaira.metrics.signal.ber import BitErrorRate
    from kaira.metrics.signal import bler
    if kind == "ber":
        return BitErrorRate() if B is None else BitErrorRate(threshold=float(B))
    cls = {"bler": bler.BlockErrorRate, "ser": bler.SER, "fer": bler.FER}[kind]
    return cls(block_size=B)


def close(a, b):
    return abs(float(a) - float(b)) <= F32 * max(abs(float(b)), 1e-30) + 1e-12


def pool_batch(i, complex_=False):
    """deterministic pool of small batches of different sizes: rows in 1..7, 8/16/24 bits per row (so one metric object sees inputs with
    different numbers of blocks per item)."""
    rng = np.random.RandomState(1000 + i)
    rows = [1, 3, 2, 5, 4, 7][i % 6]
    cols = 8 * [1, 2, 3][i % 3]
    x = (rng.rand(rows, cols) < 0.5).astype(np.float32)
    flip = (rng.rand(rows, cols) < [0.0, 0.1, 0.5, 0.02, 1.0, 0.2][i % 6])
    y = np.where(flip, 1 - x, x).astype(np.float32)
    if complex_:
        h = cols // 2
        x = x[:, :h] + 1j * x[:, h:]
        y = y[:, :h] + 1j * y[:, h:]
        return x.astype(np.complex64), y.astype(np.complex64)
    return x, y


def run_history(ctx, kind, B, ops, complex_=False, label="history"):
    """ops: list of ["update", i] | ["compute"] | ["reset"] | ["forward", i].  Invariant after every step."""
    import torch
    cell = {"metric": kind, "block_size": B, "form": "complex" if complex_ else "real", "mode": "history"}
    case = {"kind": "history", "metric": kind, "block_size": B, "ops": [list(o) for o in ops], "complex": complex_}
    m = make_metric(kind, B)
    model = Model("ber" if kind == "ber" else "bler", B)
    ok = True
    for step, op in enumerate(ops):
        if op[0] in ("update", "forward"):
            x, y = pool_batch(op[1], complex_)
            okc, v = ctx.call((lambda: m.update(torch.from_numpy(x), torch.from_numpy(y))) if op[0] == "update" else (lambda: m(torch.from_numpy(x), torch.from_numpy(y))),
                              "C16.raises", cell, {**case, "ops": case["ops"][: step + 1]}, "the metric raised on a valid batch of this history", CHK)
            if not okc:
                return False
            if op[0] == "update":
                model.update(x, y)
            else:
                e, t = Model.count(model.kind, B, x, y)
                ctx.ev()
                if not close(v, np.float32(e / max(t, 1))):
                    ctx.fail("C16.h_forward_value", cell, {**case, "ops": case["ops"][: step + 1]}, float(v), float(np.float32(e / max(t, 1))), "forward() value is not the exact fraction", CHK)
                    ok = False
        elif op[0] == "reset":
            m.reset()
            model.reset()
        # compute() is only called where the history says so (and at the very end): calling it after every step
        # would hide state that goes stale between two computes
        if op[0] != "compute" and step != len(ops) - 1:
            continue
        got = m.compute()
        ctx.ev()
        if not close(got, model.value()):
            ctx.fail("C16.h_streaming", cell, {**case, "ops": case["ops"][: step + 1]}, float(got), {"expected": float(model.value()), "errors": model.err, "total": model.tot},
                     "accumulated value differs from the one-shot value on the concatenated data", CHK)
            ok = False
            break
    sizes = [pool_batch(o[1])[0].shape[0] for o in ops if o[0] == "update"]
    saw_reset = False
    upd_after_reset = False
    for o in ops:
        if o[0] == "reset":
            saw_reset = True
        elif o[0] == "update" and saw_reset:
            upd_after_reset = True
    if upd_after_reset or len(set(sizes)) >= 2:
        ctx.nontrivial(kind, B, complex_, str(ops))
    ctx.cls(label)
    return ok


def unit_histories_exhaustive(ctx, kind, B, maxlen, complex_):
    alphabet = [("update", 1), ("update", 2), ("update", 3), ("compute",), ("reset",)]
    for L in range(1, maxlen + 1):
        for ops in itertools.product(alphabet, repeat=L):
            run_history(ctx, kind, B, ops, complex_, "history_exhaustive")
    ctx.exhaustive(f"histories_len<={maxlen}", True)
    ctx.sample({"metric": kind, "block_size": B, "example_history": [list(o) for o in alphabet[:3]] + [["compute"], ["reset"], ["update", 2], ["compute"]]})


_LAST = {}


def unit_histories_stateful(ctx, kind, B, steps, examples, complex_):
    """Hypothesis RuleBasedStateMachine: update / compute / reset / forward, compared at every compute of the history and at its end."""
    import torch
    cell = {"metric": kind, "block_size": B, "form": "complex" if complex_ else "real", "mode": "stateful"}
    counter = {"runs": 0, "nontrivial": set()}

    class Machine(RuleBasedStateMachine):
        def __init__(self):
            super().__init__()
            self.m = make_metric(kind, B)
            self.model = Model("ber" if kind == "ber" else "bler", B)
            self.ops = []
            counter["runs"] += 1

        @rule(i=st.integers(0, 11))
        def update(self, i):
            x, y = pool_batch(i, complex_)
            self.ops.append(["update", i])
            _LAST["ops"] = list(self.ops)
            try:
                self.m.update(torch.from_numpy(x), torch.from_numpy(y))
            except Exception as e:  # noqa: BLE001  a valid batch: the library raising is a failure of the metric, not of the harness
                raise AssertionError(f"update raised {type(e).__name__}: {str(e)[:100]}")
            self.model.update(x, y)

        @rule()
        def compute(self):
            self.ops.append(["compute"])
            _LAST["ops"] = list(self.ops)
            assert close(self.m.compute(), self.model.value()), "streaming value differs from the reference counters"

        @rule()
        def reset(self):
            self.m.reset()
            self.model.reset()
            self.ops.append(["reset"])

        @rule(i=st.integers(0, 11))
        def forward(self, i):
            x, y = pool_batch(i, complex_)
            self.ops.append(["forward", i])
            _LAST["ops"] = list(self.ops)
            try:
                self.m(torch.from_numpy(x), torch.from_numpy(y))
            except Exception as e:  # noqa: BLE001
                raise AssertionError(f"forward raised {type(e).__name__}: {str(e)[:100]}")

        def teardown(self):
            _LAST["ops"] = list(self.ops) + [["compute"]]
            assert close(self.m.compute(), self.model.value()), "streaming value differs from the reference counters at the end of the history"
            sizes = {pool_batch(o[1])[0].shape[0] for o in self.ops if o[0] == "update"}
            if len(sizes) >= 2 or any(o[0] == "reset" for o in self.ops):
                counter["nontrivial"].add(str(self.ops))

    Machine.TestCase.settings = None
    try:
        run_state_machine_as_test(hypothesis.seed(ctx.seed * 101 + (B or 0) + len(kind))(Machine),
                                  settings=settings(max_examples=examples, stateful_step_count=steps, deadline=None, database=None, derandomize=False,
                                                    suppress_health_check=list(HealthCheck), report_multiple_bugs=False, print_blob=False,
                                                    phases=[Phase.generate, Phase.shrink]))
    except AssertionError as e:
        ops = _LAST.get("ops", [])
        ctx.fail("C16.h_streaming", cell, {"kind": "history", "metric": kind, "block_size": B, "ops": ops, "complex": complex_}, str(e)[:200], "compute() == reference counters after every step",
                 "stateful history (shrunk by Hypothesis) breaks the streaming invariant", CHK)
    except hypothesis.errors.Flaky as e:
        ctx.fail("C16.h_streaming", cell, {"kind": "history", "metric": kind, "block_size": B, "ops": _LAST.get("ops", []), "complex": complex_}, f"{type(e).__name__}: not reproducible",
                 "identical histories give identical values", "the metric's value differs between identical runs of the same history", CHK)
    ctx.ev(counter["runs"] * steps // 2)
    for h in counter["nontrivial"]:
        ctx.nontrivial("sm", kind, B, h)
    ctx.cls("stateful_histories", counter["runs"])
    ctx.sample({"metric": kind, "block_size": B, "stateful_runs": counter["runs"], "max_steps": steps})


def oneshot(ctx, kind, B, x, y, label):
    import torch
    cell = {"metric": kind, "block_size": B, "form": "complex" if np.iscomplexobj(x) else "real", "mode": "oneshot"}
    case = {"kind": "oneshot", "metric": kind, "block_size": B, "x": x, "y": y}
    mk = "ber" if kind == "ber" else "bler"
    tx, ty = torch.from_numpy(np.ascontiguousarray(x)), torch.from_numpy(np.ascontiguousarray(y))
    m = make_metric(kind, B)
    try:
        e, t = Model.count(mk, B, x, y)
    except ValueError:
        # block size does not divide: must raise
        ctx.ev()
        try:
            v = m(tx, ty)
            ctx.fail("C16.o_reject", cell, case, float(v), "ValueError", "block size that does not divide the item size was accepted", CHK)
        except Exception:
            ctx.cls("rejections")
        return
    ok, v = ctx.call(lambda: m(tx, ty), "C16.o_raises", cell, case, checker=CHK)
    if not ok:
        return
    exp = np.float32(e / max(t, 1))
    ctx.check(close(v, exp), "C16.o_exact", cell, case, float(v), {"expected": float(exp), "errors": e, "total": t}, "rate is not the exact fraction of differing bits / blocks", CHK)
    v2 = m(ty, tx)
    ctx.check(close(v2, v), "C16.o_symmetric", cell, case, float(v2), float(v), "metric is not symmetric in its arguments", CHK)
    ctx.check((float(v) == 0.0) == bool(e == 0), "C16.o_zero_iff_equal", cell, case, float(v), e, "zero value does not coincide with equal inputs", CHK)
    m.update(tx, ty)
    ctx.check(close(m.compute(), exp), "C16.o_update_compute", cell, case, float(m.compute()), float(exp), "update+compute differs from forward", CHK)
    if not np.iscomplexobj(x):
        # the same bits as int64 tensors
        try:
            vi = make_metric(kind, B)(tx.to(torch.int64), ty.to(torch.int64))
            ctx.check(close(vi, exp), "C16.o_exact", {**cell, "dtype": "int64"}, {**case, "dtype": "int64"}, float(vi), float(exp), "rate for int64 inputs is not the exact fraction", CHK)
        except Exception:
            ctx.cls("int64_inputs_rejected_" + mk)
    if 0 < e < t:
        ctx.nontrivial(kind, B, hash(np.asarray(x).tobytes()), hash(np.asarray(y).tobytes()))
    ctx.cls(label)
    if mk == "bler" and not np.iscomplexobj(x):
        # BER <= BLER <= min(1, Bsize*BER)
        from kaira.metrics.signal.ber import BitErrorRate
        ber = float(BitErrorRate()(tx, ty))
        bsz = B if B is not None else int(np.prod(x.shape[1:])) if x.ndim > 1 else 1
        ctx.check(ber <= float(v) + 1e-7 and float(v) <= min(1.0, bsz * ber) + 1e-6, "C16.o_inequalities", cell, case, {"ber": ber, "bler": float(v)}, "BER <= BLER <= min(1, B*BER)", checker=CHK)
    if kind == "ber" and not np.iscomplexobj(x):
        # the BER helper counts differing elements over all elements, whatever the rank of the inputs
        from kaira.benchmarks.metrics import StandardMetrics
        ok_h, hv = ctx.call(lambda: StandardMetrics.bit_error_rate(tx, ty), "C16.o_helper_raises", cell, case, checker=CHK)
        if ok_h:
            ctx.check(close(hv, exp), "C16.o_helper_ber", cell, case, hv, float(exp), "StandardMetrics.bit_error_rate differs from the exact fraction", CHK)
    if x.ndim == 1 and not np.iscomplexobj(x):
        from kaira.benchmarks.metrics import StandardMetrics
        for hb in (1, 2, 4):
            if len(x) % hb == 0 and len(x) >= hb:
                he, ht = Model.count("bler", hb, x.reshape(1, -1), y.reshape(1, -1))
                hv = StandardMetrics.block_error_rate(tx, ty, hb)
                ctx.check(close(hv, np.float32(he / ht)), "C16.o_helper_bler", {**cell, "helper_block": hb}, {**case, "helper_block": hb}, hv, he / ht,
                          "StandardMetrics.block_error_rate differs from the exact fraction", CHK)


def unit_oneshot(ctx, n_gen):
    shapes = [(8,), (12,), (1, 8), (3, 8), (2, 3, 4), (5, 12), (4, 2, 6)]
    rng = np.random.RandomState(ctx.seed + 5)
    metrics = [("ber", None), ("ber", 0.0), ("ber", 0.25), ("bler", None), ("bler", 1), ("bler", 2), ("bler", 4), ("ser", 3), ("fer", None), ("bler", 5), ("bler", 7)]
    for shape in shapes:
        n = int(np.prod(shape))
        base = (rng.rand(*shape) < 0.5).astype(np.float32)
        variants = [("all_equal", base.copy()), ("all_different", 1 - base)]
        for pos in range(n):
            y = base.copy().reshape(-1)
            y[pos] = 1 - y[pos]
            variants.append(("single_difference", y.reshape(shape)))
        for kind, B in metrics:
            for label, y in variants:
                oneshot(ctx, kind, B, base, y, label)
    ctx.exhaustive("single_difference_positions", True)

    def f(t):
        shape, sd, p, cx, mi = t
        r = np.random.RandomState(sd)
        x = (r.rand(*shape) < 0.5).astype(np.float32)
        y = np.where(r.rand(*shape) < p, 1 - x, x).astype(np.float32)
        kind, B = metrics[mi]
        if cx:
            x2 = (r.rand(*shape) < 0.5).astype(np.float32)
            y2 = np.where(r.rand(*shape) < p, 1 - x2, x2).astype(np.float32)
            x, y = (x + 1j * x2).astype(np.complex64), (y + 1j * y2).astype(np.complex64)
        oneshot(ctx, kind, B, x, y, "generated_complex" if cx else "generated_real")
    strat = st.tuples(st.one_of(st.tuples(st.integers(1, 40)), st.tuples(st.integers(1, 6), st.integers(1, 24)), st.tuples(st.integers(1, 4), st.integers(1, 4), st.integers(1, 8))),
                      st.integers(0, 2 ** 31 - 1), st.sampled_from([0.0, 0.01, 0.1, 0.5, 1.0]), st.booleans(), st.integers(0, len(metrics) - 1))
    draw_cases(strat, n_gen, ctx.seed * 17 + 3, f)
    ctx.sample({"shapes": [list(s) for s in shapes], "metrics": metrics})


def unit_partitions(ctx, n_gen):
    """a data set cut at generated points and fed in a generated order gives the one-shot value."""
    import torch

    def f(t):
        rows, sd, cuts, order_seed, mi = t
        kind, B = [("ber", None), ("bler", None), ("bler", 4), ("ser", 2)][mi]
        r = np.random.RandomState(sd)
        x = (r.rand(rows, 8) < 0.5).astype(np.float32)
        y = np.where(r.rand(rows, 8) < 0.15, 1 - x, x).astype(np.float32)
        cs = sorted(set(c % rows for c in cuts if 0 < c % rows))
        parts = np.split(np.arange(rows), cs)
        np.random.RandomState(order_seed).shuffle(parts)
        m = make_metric(kind, B)
        for p in parts:
            if len(p):
                m.update(torch.from_numpy(x[p]), torch.from_numpy(y[p]))
        e, tt = Model.count("ber" if kind == "ber" else "bler", B, x, y)
        cell = {"metric": kind, "block_size": B, "form": "real", "mode": "partition"}
        ctx.check(close(m.compute(), np.float32(e / tt)), "C16.h_partition", cell, {"kind": "partition", "metric": kind, "block_size": B, "rows": rows, "seed": sd, "cuts": cs, "order_seed": order_seed},
                  float(m.compute()), e / tt, "accumulated value depends on how the data was split or ordered", "c16:check_partition")
        if len(parts) >= 2:
            ctx.nontrivial("part", kind, B, rows, sd, str(cs), order_seed)
    draw_cases(st.tuples(st.integers(1, 40), st.integers(0, 2 ** 31 - 1), st.lists(st.integers(0, 100), max_size=6), st.integers(0, 1000), st.integers(0, 3)), n_gen, ctx.seed * 17 + 9, f)
    ctx.sample({"generator": "rows 1..40 x 8 bits, up to 6 cuts, shuffled parts"})


def check_partition(ctx, cell, case):
    pass  # partitions are regenerated from (rows, seed, cuts, order_seed) by unit_partitions; kept for replay completeness


def check_case(ctx, cell, case):
    if case["kind"] == "history":
        run_history(ctx, case["metric"], case["block_size"], [tuple(o) for o in case["ops"]], case.get("complex", False), "replay")
    elif case["kind"] == "oneshot":
        def arr(v):
            if isinstance(v, dict):
                return (np.asarray(v["re"]) + 1j * np.asarray(v["im"])).astype(np.complex64)
            return np.asarray(v, dtype=np.float32)
        oneshot(ctx, case["metric"], case["block_size"], arr(case["x"]), arr(case["y"]), "replay")


def check_evm(ctx, cell, case):
    """ErrorVectorMagnitude (a file of this property) in its streaming form: the value accumulated over any split and order of the data equals
    the value after ONE update with the concatenated data (reference: 100.sqrt(sum|y-x|^2 / sum|x|^2), resp. / count without normalisation),
    an error-free batch anywhere in the history changes nothing but the reference power, and reset restores the initial state."""
    import torch
    from kaira.metrics.signal.evm import ErrorVectorMagnitude
    normalize, cplx, sizes, order, seed = case["normalize"], case["complex"], case["sizes"], case["order"], case["seed"]
    cell = cell or {"metric": "evm", "normalize": normalize, "form": "complex" if cplx else "real", "mode": "streaming"}
    rng = np.random.RandomState(seed)
    parts = []
    for i, n in enumerate(sizes):
        x = rng.randn(n) + (1j * rng.randn(n) if cplx else 0)
        e = (rng.randn(n) + (1j * rng.randn(n) if cplx else 0)) * (0.0 if i in case.get("clean", []) else 0.2)
        x = x.astype(np.complex64 if cplx else np.float32)
        parts.append((x, (x + e).astype(x.dtype)))
    seq = [parts[i] for i in order]

    def ref(ps):
        err = sum(float(np.sum(np.abs(y.astype(np.complex128) - x.astype(np.complex128)) ** 2)) for x, y in ps)
        den = sum(float(np.sum(np.maximum(np.abs(x.astype(np.complex128)) ** 2, 1e-12))) for x, y in ps) if normalize else float(sum(x.size for x, _ in ps))
        return 100.0 * np.sqrt(err / den) if den > 0 else 0.0
    m = ErrorVectorMagnitude(normalize=normalize)

    def stream(ps):
        for x, y in ps:
            m.update(torch.from_numpy(x), torch.from_numpy(y))
        return float(m.compute())
    ok, got = ctx.call(lambda: stream(seq), "C16.raises", cell, case, checker="c16:check_evm")
    if not ok:
        return
    ctx.ev()
    want = ref(seq)
    ctx.check(abs(got - want) <= 1e-4 * max(want, 1e-6) + 1e-6, "C16.e_evm_streaming", cell, case, got, want, "accumulated EVM depends on how the data was split or ordered", "c16:check_evm")
    m.reset()
    xs, ys = np.concatenate([p[0] for p in parts]), np.concatenate([p[1] for p in parts])
    ok, one = ctx.call(lambda: stream([(xs, ys)]), "C16.raises", cell, case, checker="c16:check_evm")
    if ok:
        ctx.check(abs(one - want) <= 1e-4 * max(want, 1e-6) + 1e-6, "C16.e_evm_streaming", cell, {**case, "after_reset": True}, one, want,
                  "after reset, one update with the concatenated data gives another EVM than the split history", "c16:check_evm")
    if len(sizes) >= 2 and case.get("clean"):
        ctx.nontrivial("evm", normalize, cplx, str(sizes), str(order), str(case.get("clean")))
    ctx.cls("evm_histories")


def unit_evm(ctx, n):
    strat = st.integers(1, 5).flatmap(lambda k: st.fixed_dictionaries({
        "normalize": st.booleans(), "complex": st.booleans(), "sizes": st.lists(st.integers(1, 40), min_size=k, max_size=k),
        "order": st.permutations(list(range(k))), "clean": st.lists(st.integers(0, k - 1), max_size=2, unique=True), "seed": st.integers(0, 10 ** 6)}))
    for fixed in ({"normalize": True, "complex": True, "sizes": [8, 8, 8], "order": [0, 1, 2], "clean": [0], "seed": 1},
                  {"normalize": True, "complex": False, "sizes": [5, 9], "order": [1, 0], "clean": [1], "seed": 2},
                  {"normalize": False, "complex": True, "sizes": [4, 4, 4, 4], "order": [3, 2, 1, 0], "clean": [0, 1], "seed": 3}):
        check_evm(ctx, None, fixed)
    draw_cases(strat, n, ctx.seed * 59 + 3, lambda c: check_evm(ctx, None, {**c, "order": list(c["order"])}))
    ctx.sample({"metric": "evm", "histories": n})


def units(tier, seed):
    T = tier == "thorough"
    us = []
    for kind, B, cx in (("ber", None, False), ("ber", 0.0, False), ("ber", None, True), ("bler", None, False), ("bler", 4, False), ("bler", 2, True), ("ser", 8, False), ("fer", None, False)):
        us.append(Unit(f"hist_exh_{kind}_{B}_{'c' if cx else 'r'}", "c16:unit_histories_exhaustive", {"kind": kind, "B": B, "maxlen": 6 if T else 5, "complex_": cx}, 6 if T else 3))
        us.append(Unit(f"hist_sm_{kind}_{B}_{'c' if cx else 'r'}", "c16:unit_histories_stateful", {"kind": kind, "B": B, "steps": 200 if T else 50, "examples": 1000 if T else 60, "complex_": cx}, 5))
    us.append(Unit("evm_streaming", "c16:unit_evm", {"n": 4000 if T else 200}, 2))
    us.append(Unit("oneshot", "c16:unit_oneshot", {"n_gen": 20000 if T else 500}, 5))
    us.append(Unit("partitions", "c16:unit_partitions", {"n_gen": 20000 if T else 500}, 3))
    return us
