"""C01 — encoder, generator matrix and parity-check matrix describe one and the same code."""
from __future__ import annotations

import numpy as np
from hypothesis import strategies as st

from .. import catalogue as cat
from ..core import Unit, canon
from ..hyp import draw_cases
from ..ref import gf2

PROPERTY = "C01"
RULE = ("cells = (family, parameters, information set) of the catalogue plus Hypothesis-generated systematic P, full-rank "
        "non-systematic G (constructed as A.[I|P].Pi, never by rejection) and LDPC H (sparse, optionally with dependent rows); "
        "per cell: all 2^k messages when k<=12 (unit vectors+all-ones+256 seeded messages above), all n single-bit and 64 multi-bit "
        "perturbations of codewords. Non-trivial: 1<k<n cell, message != 0; distinct = distinct (cell, hash(G), message) resp. (cell, perturbation).")
ASSUMPTIONS = ["kverif/ref/gf2.py (bit-packed GF(2) elimination) is the trusted reference for rank, null space and membership",
               "published matrices are read from the encoder's generator_matrix / check_matrix buffers",
               "BCH: a delta the constructor rejects with ValueError is 'not a Bose distance' and is skipped, not a failure"]
CHK = "c01:check_spec"


def messages_for(k: int, seed: int, nrand: int = 256):
    if k <= 12:
        idx = np.arange(1 << k, dtype=np.int64)
        return ((idx[:, None] >> np.arange(k)[None, :]) & 1).astype(np.float32), True
    rng = np.random.RandomState(seed)
    M = [np.eye(k, dtype=np.float32), np.ones((1, k), dtype=np.float32), np.zeros((1, k), dtype=np.float32),
         (rng.rand(nrand, k) < 0.5).astype(np.float32)]
    return np.concatenate(M), False


def _np(t):
    return t.detach().cpu().numpy()


def check_spec(ctx, cell, case):
    """case = {"spec": ..., optional "message": [...], "word": [...]} — full clause set on one code."""
    import torch
    spec = case["spec"]
    cell = cell or cat.cell_of(spec)
    kseed = case.get("seed", ctx.seed)
    try:
        enc = cat.build(spec)
    except ValueError as e:
        if spec["family"] == "bch" and "Bose" in str(e):
            ctx.cls("bch_delta_rejected")
            return None
        ctx.ev()
        ctx.fail("C01.construct", cell, {"spec": spec}, f"{type(e).__name__}: {e}"[:200], "encoder object", "constructor raised on admissible parameters", CHK)
        return None
    except Exception as e:  # noqa: BLE001
        ctx.ev()
        ctx.fail("C01.construct", cell, {"spec": spec}, f"{type(e).__name__}: {e}"[:200], "encoder object", "constructor raised on admissible parameters", CHK)
        return None
    ccase = {"spec": spec}
    G = _np(enc.generator_matrix).astype(np.float64)
    n_attr, k_attr = enc.code_length, enc.code_dimension
    ok = ctx.check(G.ndim == 2 and G.shape == (k_attr, n_attr) and gf2.is_binary(G), "C01.b_shape", cell, ccase,
                   {"G.shape": list(G.shape), "code_length": n_attr, "code_dimension": k_attr}, "G is a binary k x n matrix", checker=CHK)
    ctx.check(enc.redundancy == n_attr - k_attr, "C01.b_redundancy", cell, ccase, enc.redundancy, n_attr - k_attr, checker=CHK)
    if not ok:
        return enc
    k, n = G.shape
    Gr = gf2.rows_from_matrix(G)
    rk = gf2.rank(Gr, n)
    ctx.check(rk == k, "C01.b_rank", cell, ccase, rk, k, "generator matrix is not of full row rank: encoding is not injective", CHK)
    nontriv_cell = 1 < k < n
    ghash = hash(tuple(Gr)) & 0xFFFFFFFF

    # (a) encoder(m) == m.G for all / sampled messages
    if "message" in case:
        M, exh = np.asarray([case["message"]], dtype=np.float32), False
    else:
        M, exh = messages_for(k, kseed)
    ok_call, out = ctx.call(lambda: enc(torch.from_numpy(M.copy())), "C01.a_encode_raises", cell, ccase, checker=CHK)
    C = None
    if ok_call:
        out = _np(out).astype(np.float64)
        exp = (M.astype(np.float64) @ G) % 2
        if out.shape != exp.shape:
            ctx.ev()
            ctx.fail("C01.a_shape", cell, ccase, list(out.shape), list(exp.shape), "encoder output has the wrong shape", CHK)
        else:
            bad = np.nonzero((out != exp).any(axis=1))[0]
            ctx.ev(len(M))
            if nontriv_cell:
                ctx.nontrivial_many(("msg", canon(cell), ghash), [gf2.vec_to_int(m) for m in M[: 4096] if m.any()])
            for i in bad[:1]:
                ctx.fail("C01.a_encode", cell, {"spec": spec, "message": M[i].astype(int).tolist()}, out[i].astype(int).tolist(), exp[i].astype(int).tolist(),
                         "encoder output differs from message x published generator matrix", CHK)
            if len(bad) > 1:
                ctx.fail_total += len(bad) - 1
            C = exp
            if exh and "message" not in case:
                ctx.cls("cells_all_messages")
    # (c),(d) published H
    H = _np(enc.check_matrix).astype(np.float64) if hasattr(enc, "check_matrix") and enc.check_matrix is not None else None
    if H is None or H.ndim != 2 or H.shape[1] != n or not gf2.is_binary(H):
        ctx.ev()
        ctx.fail("C01.c_shape", cell, ccase, None if H is None else list(H.shape), f"binary matrix with {n} columns", checker=CHK)
        return enc
    Hr = gf2.rows_from_matrix(H)
    rh = gf2.rank(Hr, n)
    ctx.check(rh == n - k, "C01.c_rank", cell, ccase, rh, n - k, "rank of the published parity-check matrix != n-k", CHK)
    prod_bad = [(i, j) for i, g in enumerate(Gr) for j, h in enumerate(Hr) if gf2.dot(g, h)]
    ctx.check(not prod_bad, "C01.d_orthogonal", cell, ccase, {"nonzero_entries_of_GHt": prod_bad[:5]}, "G.H^T = 0", "published G and H are not orthogonal", CHK)
    # null space of H is exactly the code (direct: compare row spaces) — equivalent to (c)+(d) but executed
    ns = gf2.null_space(Hr, n)
    ctx.check(gf2.same_rowspace(ns, Gr, n), "C01.cd_nullspace", cell, ccase, {"dim_null_H": len(ns)}, {"dim_code": k}, "null space of published H is not the code", CHK)

    # (e),(f) through the API
    api_ok = not (spec["family"] == "rm" and k > 11)
    if api_ok and C is not None:
        red, piv = gf2.rref(Gr, n)
        Cw = C[: 4096].astype(np.float32)
        ok_call, syn = ctx.call(lambda: enc.calculate_syndrome(torch.from_numpy(Cw.copy())), "C01.e_syndrome_raises", cell, ccase, checker=CHK)
        if ok_call:
            syn = _np(syn)
            nz = np.nonzero(syn.reshape(len(Cw), -1).any(axis=1))[0]
            ctx.ev(len(Cw))
            for i in nz[:1]:
                ctx.fail("C01.e_codeword_syndrome", cell, {"spec": spec, "message": M[i].astype(int).tolist()}, syn[i].astype(int).tolist(), "all-zero",
                         "a codeword has a non-zero syndrome", CHK)
        # perturbations: all single-bit flips of up to 4 codewords + 64 multi-bit patterns
        rng = np.random.RandomState(kseed + 7)
        if "word" in case:
            W = np.asarray([case["word"]], dtype=np.float32)
        else:
            base = C[rng.randint(0, len(C), size=4)]
            singles = (base[:, None, :] + np.eye(n)[None, :, :]) % 2
            multi = []
            for _ in range(64):
                w = rng.randint(2, max(3, n // 2 + 1))
                e = np.zeros(n)
                e[rng.choice(n, size=min(w, n), replace=False)] = 1
                multi.append((C[rng.randint(0, len(C))] + e) % 2)
            W = np.concatenate([singles.reshape(-1, n), np.asarray(multi).reshape(-1, n)]).astype(np.float32)
        member = np.array([gf2.in_rowspace(gf2.vec_to_int(w), red, piv) for w in W])
        ok_call, syn = ctx.call(lambda: enc.calculate_syndrome(torch.from_numpy(W.copy())), "C01.f_syndrome_raises", cell, ccase, checker=CHK)
        if ok_call:
            syn = _np(syn).reshape(len(W), -1)
            zero = ~syn.any(axis=1)
            ctx.ev(len(W))
            if nontriv_cell:
                ctx.nontrivial_many(("pert", canon(cell), ghash), [gf2.vec_to_int(w) for w, mem in zip(W, member) if not mem])
            ctx.cls("perturbations_noncodeword", int((~member).sum()))
            ctx.cls("perturbations_codeword", int(member.sum()))
            wrong = np.nonzero(zero != member)[0]
            for i in wrong[:1]:
                ctx.fail("C01.f_noncodeword_syndrome" if not member[i] else "C01.e_codeword_syndrome", cell, {"spec": spec, "word": W[i].astype(int).tolist()},
                         {"syndrome_zero": bool(zero[i])}, {"is_codeword": bool(member[i])},
                         "a non-codeword has an all-zero syndrome" if not member[i] else "a codeword has a non-zero syndrome", CHK)
            if len(wrong) > 1:
                ctx.fail_total += len(wrong) - 1
    ctx.cls("cells_" + spec["family"])
    ctx.cls("info_" + str(cell.get("info", "n/a")))
    if len(ctx.samples) < 2:
        ctx.sample({"cell": cell, "n": n, "k": k, "G_row0": G[0].astype(int).tolist(), "messages": len(M)})
    return enc


def unit_specs(ctx, specs):
    for s in specs:
        if s.get("probe"):
            for s2 in cat.expand_bch(s):
                check_spec(ctx, None, {"spec": s2})
        else:
            check_spec(ctx, None, {"spec": s})


# ----------------------------------------------------------------------------- generated matrices

@st.composite
def full_rank_G(draw, kmax=5, nmax=10):
    """Full-rank k x n matrix by construction: A . [I_k | P] . Pi, A invertible (product of elementary ops)."""
    k = draw(st.integers(1, kmax))
    n = draw(st.integers(k + 1, nmax))
    P = draw(st.lists(st.lists(st.integers(0, 1), min_size=n - k, max_size=n - k), min_size=k, max_size=k))
    G = np.concatenate([np.eye(k, dtype=np.int64), np.asarray(P, dtype=np.int64).reshape(k, n - k)], axis=1)
    ops = draw(st.lists(st.tuples(st.integers(0, k - 1), st.integers(0, k - 1)), min_size=0, max_size=3 * k))
    for i, j in ops:
        if i != j:
            G[i] ^= G[j]
    perm = draw(st.permutations(list(range(n))))
    G = G[:, perm]
    return G.tolist()


@st.composite
def pivot_G(draw, kmax=4, nmax=24):
    """Full-rank k x n matrix with PRESCRIBED pivot columns c_1 < ... < c_k of its row echelon form (anywhere in 0..n-1, so also far to the
    right: columns left of c_1 are zero, columns between pivots depend on earlier pivots only), rows then mixed by an invertible matrix."""
    k = draw(st.integers(1, kmax))
    n = draw(st.integers(k + 1, nmax))
    piv = sorted(draw(st.lists(st.integers(0, n - 1), min_size=k, max_size=k, unique=True)))
    G = np.zeros((k, n), dtype=np.int64)
    bits = draw(st.lists(st.integers(0, 1), min_size=k * n, max_size=k * n))
    for i in range(k):
        for j in range(piv[i] + 1, n):
            if j not in piv:
                G[i, j] = bits[i * n + j]
        G[i, piv[i]] = 1
    ops = draw(st.lists(st.tuples(st.integers(0, k - 1), st.integers(0, k - 1)), min_size=0, max_size=3 * k))
    for i, j in ops:
        if i != j:
            G[i] ^= G[j]
    return G.tolist()


@st.composite
def parity_P(draw, kmax=6, mmax=6):
    k = draw(st.integers(1, kmax))
    m = draw(st.integers(1, mmax))
    P = draw(st.lists(st.lists(st.integers(0, 1), min_size=m, max_size=m), min_size=k, max_size=k))
    n = k + m
    kind = draw(st.sampled_from(["left", "right", "subset", "permuted"]))
    if kind in ("left", "right"):
        info = kind
    else:
        sub = draw(st.lists(st.integers(0, n - 1), min_size=k, max_size=k, unique=True))
        info = sorted(sub) if kind == "subset" else sub
    return {"family": "systematic", "P": P, "info": info}


@st.composite
def ldpc_H(draw, nmax=12):
    n = draw(st.integers(3, nmax))
    r = draw(st.integers(1, n - 1))
    rows = []
    for _ in range(r):
        w = draw(st.integers(1, min(4, n)))
        idx = draw(st.lists(st.integers(0, n - 1), min_size=w, max_size=w, unique=True))
        row = [0] * n
        for i in idx:
            row[i] = 1
        rows.append(row)
    dep = draw(st.integers(0, 2))
    for _ in range(dep):
        sel = draw(st.lists(st.integers(0, len(rows) - 1), min_size=1, max_size=3, unique=True))
        row = [0] * n
        for s in sel:
            row = [a ^ b for a, b in zip(row, rows[s])]
        rows.append(row)
    Hr = gf2.rows_from_matrix(rows)
    rk = gf2.rank(Hr, n)
    return {"family": "ldpc", "H": rows, "rank_deficient": rk < len(rows)}, rk


def unit_generated(ctx, kind, n, shard, kmax=5, nmax=10):
    def f(x):
        if kind in ("generic", "generic_pivots"):
            G = x
            has_id = all(any(sum(col) == 1 and col[i] == 1 for col in zip(*G)) for i in range(len(G)))
            spec = {"family": "generic", "G": G, "has_identity_cols": has_id}
        elif kind == "systematic":
            spec = x
        else:
            spec, rk = x
            if rk == len(spec["H"][0]):  # k = 0: no code; the constructor cannot represent it
                ctx.cls("ldpc_k0_skipped")
                return
        check_spec(ctx, None, {"spec": spec, "seed": ctx.seed})
    strat = {"generic": full_rank_G(kmax, nmax), "generic_pivots": pivot_G(kmax, nmax), "systematic": parity_P(), "ldpc": ldpc_H()}[kind]
    draw_cases(strat, n, ctx.seed * 7919 + shard, f)


def units(tier, seed):
    T = tier == "thorough"
    specs = cat.structured_specs(tier, seed)
    # cost model: bch mu>=5 is heavy
    def w(s):
        if s["family"] == "bch":
            return {2: 1, 3: 1, 4: 2, 5: 8, 6: 40}[s["mu"]]
        if s["family"] == "rm":
            return 2 ** max(0, s["m"] - 3)
        if s["family"] == "golay":
            return 4
        return 1
    specs.sort(key=lambda s: -w(s))
    nshards = 48 if T else 28
    shards = [[] for _ in range(nshards)]
    loads = [0.0] * nshards
    for s in specs:
        i = loads.index(min(loads))
        shards[i].append(s)
        loads[i] += w(s)
    us = [Unit(f"catalogue_{i:02d}", "c01:unit_specs", {"specs": sh}, loads[i]) for i, sh in enumerate(shards) if sh]
    ng = 2500 if T else 60
    for sh in range(4):
        us.append(Unit(f"gen_generic_small_{sh}", "c01:unit_generated", {"kind": "generic", "n": ng, "shard": sh, "kmax": 3, "nmax": 9}, 5))
        us.append(Unit(f"gen_generic_big_{sh}", "c01:unit_generated", {"kind": "generic", "n": ng, "shard": 10 + sh, "kmax": 8 if T else 5, "nmax": 14 if T else 10}, 8))
        # long low-rate codes: pivot columns of the elimination spread far to the right
        us.append(Unit(f"gen_generic_lowrate_{sh}", "c01:unit_generated", {"kind": "generic_pivots", "n": ng, "shard": 40 + sh, "kmax": 4, "nmax": 40 if T else 24}, 5))
        us.append(Unit(f"gen_generic_pivots_{sh}", "c01:unit_generated", {"kind": "generic_pivots", "n": ng, "shard": 50 + sh, "kmax": 8, "nmax": 48}, 8))
        us.append(Unit(f"gen_systematic_{sh}", "c01:unit_generated", {"kind": "systematic", "n": ng, "shard": 20 + sh}, 5))
        us.append(Unit(f"gen_ldpc_{sh}", "c01:unit_generated", {"kind": "ldpc", "n": ng, "shard": 30 + sh}, 5))
    return us
