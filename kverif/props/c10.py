"""C10 — soft-input decoders: clean input decodes clean; Wagner is ML; BP exact on trees; min-sum is min-sum."""
from __future__ import annotations

import numpy as np
from hypothesis import strategies as st

from .. import catalogue as cat
from ..core import Unit, quiet
from ..hyp import draw_cases
from ..ref import gf2, soft as RS

PROPERTY = "C10"
RULE = ("codes: a fixed (7,4) LDPC matrix, Hypothesis-generated sparse H (n<=16; thorough 24) and cycle-free H (forests grown with union-find, every check of "
        "degree>=2), catalogue systematic codes for BP, SPC k=1..10, RM(r,m) m<=4 (thorough 5); decoders BP (iterations 1..20, exact/Taylor arctanh), min-sum "
        "(scaling/offset/normalized), Wagner, soft RM. Clean clause: every codeword (k<=8) or seeded codewords at |LLR| in {0.5,1,2,5,20,50}. Wagner vs brute-force "
        "soft-ML on generated real vectors without ties; BP soft output vs brute-force marginals on forests; min-sum soft output vs a textbook flooding min-sum; "
        "single weak wrong-sign perturbations. Non-trivial: message != 0 and, for comparisons, the decoder changes the input (hard decision differs or |out-in|>1e-3).")
ASSUMPTIONS = ["kverif/ref/soft.py (float64 codebook marginalisation, textbook flooding decoders; self-checked on repetition/SPC/tree cases)",
               "BP exactness is only demanded when the *reference* flooding BP keeps every check message below 7.0 (the library clips tanh products at +-0.999, i.e. |message|<=7.6)",
               "min-sum offset: compared only on cases where scale*min > offset at every check in every iteration, where all offset conventions coincide",
               "the LDPC encoder built from H with k=0 is not constructible; such draws are skipped",
               "generated parity-check matrices have no all-zero column (every variable takes part in at least one check), as in every real LDPC matrix"]
CHK = "c10:check_case"
MAGS = (0.5, 1.0, 2.0, 5.0, 20.0, 50.0)
H74 = [[1, 1, 0, 1, 1, 0, 0], [1, 0, 1, 1, 0, 1, 0], [0, 1, 1, 1, 0, 0, 1]]


def make_decoder(name, enc, opts):
    import kaira.models.fec.decoders as D
    with quiet():
        if name == "bp":
            return D.BeliefPropagationDecoder(enc, bp_iters=opts.get("iters", 10), arctanh=opts.get("arctanh", True))
        if name == "minsum":
            return D.MinSumLDPCDecoder(enc, bp_iters=opts.get("iters", 10), scaling_factor=opts.get("scale", 1.0), offset=opts.get("offset", 0.0), normalized=opts.get("normalized", False))
        if name == "wagner":
            return D.WagnerSoftDecisionDecoder(enc)
        if name == "rm_soft":
            return D.ReedMullerDecoder(enc, input_type="soft")
    raise ValueError(name)


def cell_for(spec, dname, opts):
    c = cat.cell_of(spec)
    c.pop("g", None)
    c["decoder"] = dname
    for k in ("arctanh", "scale", "offset", "normalized"):
        if k in opts:
            c[k] = opts[k]
    return c


def clean_case(ctx, spec, dname, opts, seed):
    """(a): noise-free LLRs of codewords, every magnitude -> message, shape (..., k)."""
    import torch
    with quiet():
        enc = cat.build(spec)
    n, k = enc.code_length, enc.code_dimension
    cell = cell_for(spec, dname, opts)
    case0 = {"kind": "clean", "spec": spec, "decoder": dname, "opts": opts, "seed": seed}
    try:
        dec = make_decoder(dname, enc, opts)
    except Exception as e:  # noqa: BLE001
        ctx.ev()
        ctx.fail("C10.construct", cell, case0, f"{type(e).__name__}: {str(e)[:160]}", "decoder", "decoder constructor raised", CHK)
        return
    rng = np.random.RandomState(seed)
    if k <= 8:
        idx = np.arange(1 << k)
        M = ((idx[:, None] >> np.arange(k)[None, :]) & 1).astype(np.float32)
    else:
        M = (rng.rand(40, k) < 0.5).astype(np.float32)
    with quiet():
        C = enc(torch.from_numpy(M)).detach().numpy()
    for mag in (opts.get("mags") or MAGS):
        llr = ((1 - 2 * C) * mag).astype(np.float32)
        case = {**case0, "mag": mag}
        with quiet():
            ok, out = ctx.call(lambda: dec(torch.from_numpy(llr)), "C10.a_clean_raises", cell, case, checker=CHK)
        if not ok:
            continue
        out = out[0] if isinstance(out, tuple) else out
        out = out.detach().numpy()
        ctx.ev(len(M))
        if out.shape != M.shape:
            ctx.fail("C10.a_shape", cell, case, list(out.shape), list(M.shape), "soft decoder output is not (..., k)", CHK)
            continue
        bad = np.nonzero((np.rint(out) != M).any(axis=1))[0]
        ctx.nontrivial_many((str(cell), mag), [int(i) for i in np.nonzero(M.any(axis=1))[0]][:300])
        if len(bad):
            i = int(bad[0])
            ctx.fail("C10.a_clean", cell, {**case, "message": M[i].astype(int).tolist()}, np.rint(out[i]).astype(int).tolist(), M[i].astype(int).tolist(),
                     "noise-free LLRs of a codeword are not decoded to its message", CHK)
            ctx.fail_total += len(bad) - 1
    ctx.cls("clean_" + dname)


def wagner_case(ctx, k, llr):
    import torch
    import kaira.models.fec.encoders as E
    enc = E.SingleParityCheckCodeEncoder(dimension=k)
    dec = make_decoder("wagner", enc, {})
    n = k + 1
    cell = {"family": "spc", "k": k, "decoder": "wagner"}
    case = {"kind": "wagner", "k": k, "llr": [float(x) for x in llr]}
    x = torch.tensor(llr, dtype=torch.float32)
    ok, out = ctx.call(lambda: dec(x.unsqueeze(0)), "C10.b_raises", cell, case, checker=CHK)
    if not ok:
        return
    out = out.detach().numpy().reshape(-1)
    if out.shape != (k,):
        ctx.ev()
        ctx.fail("C10.b_shape", cell, case, list(out.shape), [k], checker=CHK)
        return
    cw = enc(torch.from_numpy(out.astype(np.float32)).unsqueeze(0)).detach().numpy().reshape(-1)
    C = RS.codebook_bits(enc.generator_matrix.numpy().astype(np.int64))
    l64 = np.asarray(x.numpy(), dtype=np.float64)
    met = RS.soft_ml_metric(C, l64)
    got = float((1 - 2 * cw) @ l64)
    hard = (l64 < 0).astype(int)
    if hard.sum() % 2 == 1:
        ctx.nontrivial("w", k, hash(tuple(np.round(l64, 4))))
    ctx.check(got >= met.max() - 1e-5 * max(1.0, np.abs(l64).sum()), "C10.b_wagner_ml", cell, case, {"decoded": out.astype(int).tolist(), "correlation": got},
              {"max_correlation": float(met.max()), "ml_codeword": C[int(met.argmax())].tolist()}, "Wagner output is not a maximum-likelihood codeword", CHK)


def wagner_batch_case(ctx, k, llrs, layout):
    """Wagner on several words at once: (B, n), (B, b.n) and (B1, B2, n) layouts; every word must get an ML codeword."""
    import torch
    import kaira.models.fec.encoders as E
    enc = E.SingleParityCheckCodeEncoder(dimension=k)
    dec = make_decoder("wagner", enc, {})
    n = k + 1
    L = np.asarray(llrs, dtype=np.float32).reshape(-1, n)
    cell = {"family": "spc", "k": k, "decoder": "wagner", "layout": layout}
    case = {"kind": "wagner_batch", "k": k, "llr": L.tolist(), "layout": layout}
    if layout == "batch":
        x = torch.from_numpy(L)
    elif layout == "multiblock":
        if len(L) % 2:
            L = L[:-1]
        x = torch.from_numpy(L.reshape(-1, 2 * n))
    else:
        if len(L) % 2:
            L = L[:-1]
        x = torch.from_numpy(L.reshape(2, -1, n))
    if len(L) == 0:
        return
    ok, out = ctx.call(lambda: dec(x), "C10.b_raises", cell, case, "Wagner decoder raised on a documented batched layout", CHK)
    if not ok:
        return
    out = out.detach().numpy().reshape(-1, k)
    if out.shape[0] != len(L):
        ctx.ev()
        ctx.fail("C10.b_shape", cell, case, list(out.shape), [len(L), k], checker=CHK)
        return
    C = RS.codebook_bits(enc.generator_matrix.numpy().astype(np.int64))
    cws = enc(torch.from_numpy(out.astype(np.float32))).detach().numpy()
    bad = None
    for i in range(len(L)):
        l64 = L[i].astype(np.float64)
        met = RS.soft_ml_metric(C, l64)
        got = float((1 - 2 * cws[i]) @ l64)
        ctx.ev()
        if got < met.max() - 1e-5 * max(1.0, np.abs(l64).sum()):
            bad = i
            break
    if int(((L < 0).sum(axis=1) % 2 == 1).sum()) >= 1 and len(L) >= 2:
        ctx.nontrivial("wb", k, layout, hash(L.tobytes()))
    ctx.cls("wagner_batch_" + layout)
    if bad is not None:
        ctx.fail("C10.b_wagner_ml", cell, {**case, "row": bad}, {"decoded": out[bad].astype(int).tolist()}, {"llr": L[bad].tolist()}, "Wagner output for a member of a batch is not a maximum-likelihood codeword", CHK)


def forest_strategy(nmax=12):
    @st.composite
    def forest(draw):
        n = draw(st.integers(3, nmax))
        r = draw(st.integers(1, max(1, n // 2)))
        parent = list(range(n + r))

        def find(a):
            while parent[a] != a:
                parent[a] = parent[parent[a]]
                a = parent[a]
            return a
        H = [[0] * n for _ in range(r)]
        order = draw(st.permutations(list(range(n))))
        for c in range(r):
            deg = draw(st.integers(2, 4))
            cand = draw(st.permutations(order))
            placed = 0
            for v in cand:
                if placed == deg:
                    break
                a, b = find(v), find(n + c)
                if a != b:
                    parent[a] = b
                    H[c][v] = 1
                    placed += 1
            if placed < 2:
                return None
        # isolated variables (all-zero columns) are dropped: every variable takes part in a check
        keep = [v for v in range(n) if any(H[c][v] for c in range(r))]
        H = [[row[v] for v in keep] for row in H]
        n = len(keep)
        if n <= r:
            return None
        llr = [draw(st.floats(-1.5, 1.5, allow_nan=False, width=32)) for _ in range(n)]
        return H, llr
    return forest().filter(lambda x: x is not None)


def forest_case(ctx, H, llr, iters=None, arctanh=True):
    """(c): BP soft output == exact posteriors on a cycle-free graph."""
    import torch
    import kaira.models.fec.encoders as E
    Hn = np.array(H, dtype=np.int64)
    r, n = Hn.shape
    cell = {"family": "ldpc", "graph": "forest", "decoder": "bp", "arctanh": arctanh}
    case = {"kind": "forest", "H": H, "llr": [float(x) for x in llr], "arctanh": arctanh}
    l64 = np.asarray(np.asarray(llr, dtype=np.float32), dtype=np.float64)
    iters = iters or 2 * (n + r)
    ref_bp, info = RS.flooding(Hn, l64, iters)
    if info["max_cv"] >= 7.0:
        ctx.cls("forest_outside_clipping_range")
        return
    exact = RS.posterior_llrs(RS.nullspace_codebook(Hn), l64)
    if np.abs(ref_bp - exact).max() > 1e-6:
        ctx.cls("forest_reference_not_converged")
        return
    with quiet():
        ok, enc = ctx.call(lambda: E.LDPCCodeEncoder(check_matrix=torch.tensor(H, dtype=torch.int64)), "C10.c_construct", cell, case, checker=CHK)
    if not ok:
        return
    dec = make_decoder("bp", enc, {"iters": iters, "arctanh": arctanh})
    with quiet():
        ok, res = ctx.call(lambda: dec(torch.tensor([llr], dtype=torch.float32), return_soft=True), "C10.c_raises", cell, case, checker=CHK)
    if not ok:
        return
    if not (isinstance(res, tuple) and len(res) == 2):
        ctx.ev()
        ctx.fail("C10.c_return_soft", cell, case, str(type(res)), "(decoded, soft)", checker=CHK)
        return
    soft = res[1].detach().numpy().reshape(-1).astype(np.float64)
    ctx.ev(n)
    if np.abs(exact - l64).max() > 1e-3:
        ctx.nontrivial("f", hash(str(H)), hash(tuple(np.round(l64, 4))))
    ctx.cls("forest_compared")
    if soft.shape != exact.shape:
        ctx.fail("C10.c_shape", cell, case, list(soft.shape), [n], checker=CHK)
        return
    err = np.abs(soft - exact)
    bad = err > 2e-3 + 2e-3 * np.abs(exact)
    if bad.any():
        i = int(np.argmax(err))
        ctx.fail("C10.c_bp_exact", cell, case, {"bit": i, "soft": float(soft[i])}, {"exact_posterior": float(exact[i])},
                 "BP soft output differs from the exact bitwise posterior on a cycle-free graph", CHK)


def sparse_strategy(nmax=16):
    @st.composite
    def sp(draw):
        n = draw(st.integers(4, nmax))
        r = draw(st.integers(2, n - 2))
        rows = []
        for _ in range(r):
            w = draw(st.integers(2, min(5, n)))
            idx = draw(st.lists(st.integers(0, n - 1), min_size=w, max_size=w, unique=True))
            rows.append([1 if j in idx else 0 for j in range(n)])
        # every variable takes part in at least one check (no all-zero column)
        for j in range(n):
            if not any(r_[j] for r_ in rows):
                rows[draw(st.integers(0, r - 1))][j] = 1
        llr = [draw(st.floats(-8, 8, allow_nan=False, width=32).filter(lambda v: abs(v) > 0.05)) for _ in range(n)]
        return rows, llr
    return sp()


def minsum_case(ctx, H, llr, iters, scale, offset):
    """(d),(e): min-sum soft output == textbook flooding min-sum; scaling invariance when offset == 0."""
    import torch
    import kaira.models.fec.encoders as E
    Hn = np.array(H, dtype=np.int64)
    r, n = Hn.shape
    if gf2.rank(gf2.rows_from_matrix(Hn), n) == n:
        return
    cell = {"family": "ldpc", "decoder": "minsum", "scale": scale, "offset": offset}
    case = {"kind": "minsum", "H": H, "llr": [float(x) for x in llr], "iters": iters, "scale": scale, "offset": offset}
    l64 = np.asarray(np.asarray(llr, dtype=np.float32), dtype=np.float64)
    ref, info = RS.flooding(Hn, l64, iters, "min_sum", scale, offset)
    if offset and info["min_margin"] <= 1e-6:
        ctx.cls("minsum_offset_conventions_differ_skipped")
        return
    if np.abs(ref).max() > 400:
        return
    with quiet():
        ok, enc = ctx.call(lambda: E.LDPCCodeEncoder(check_matrix=torch.tensor(H, dtype=torch.int64)), "C10.d_construct", cell, case, checker=CHK)
    if not ok:
        return
    dec = make_decoder("minsum", enc, {"iters": iters, "scale": scale, "offset": offset})
    with quiet():
        ok, res = ctx.call(lambda: dec(torch.tensor([llr], dtype=torch.float32), return_soft=True), "C10.d_raises", cell, case, checker=CHK)
    if not ok:
        return
    soft = res[1].detach().numpy().reshape(-1).astype(np.float64)
    ctx.ev(n)
    if np.abs(ref - l64).max() > 1e-3:
        ctx.nontrivial("ms", hash(str(H)), hash(tuple(np.round(l64, 4))), scale, offset, iters)
    ctx.cls("minsum_compared")
    if soft.shape != ref.shape:
        ctx.fail("C10.d_shape", cell, case, list(soft.shape), [n], checker=CHK)
        return
    err = np.abs(soft - ref)
    if (err > 1e-3 + 1e-4 * np.abs(ref)).any():
        i = int(np.argmax(err))
        ctx.fail("C10.d_minsum_update", cell, case, {"bit": i, "soft": float(soft[i])}, {"reference_min_sum": float(ref[i])},
                 "min-sum soft output differs from the textbook check update (sign product x min magnitude, scaled/offset)", CHK)
        return
    if offset == 0:
        hard0 = res[0].detach().numpy().reshape(-1)
        for a in (0.1, 3.0, 10.0):
            # the decoder clamps messages at +-500 for numerical stability: homogeneity is only claimed inside that range
            if a * 2.0 * (np.abs(ref).max() + np.abs(l64).max()) >= 450:
                ctx.cls("minsum_scaling_outside_clamp_range_skipped")
                continue
            with quiet():
                ok, res2 = ctx.call(lambda: dec(torch.tensor([llr], dtype=torch.float32) * a, return_soft=True), "C10.e_raises", cell, {**case, "a": a}, checker=CHK)
            if not ok:
                continue
            s2 = res2[1].detach().numpy().reshape(-1).astype(np.float64)
            ctx.ev(n)
            tiny = np.abs(ref) < 1e-4
            ok_soft = np.all(np.abs(s2 - a * soft) <= 1e-3 * a * (1 + np.abs(soft)))
            ok_hard = np.array_equal(res2[0].detach().numpy().reshape(-1), hard0) or tiny.any()
            ctx.check(bool(ok_soft and ok_hard), "C10.e_scale_invariance", cell, {**case, "a": a}, {"soft_scaled": s2.tolist()[:6]}, {"a*soft": (a * soft).tolist()[:6]},
                      "min-sum (offset 0) is not invariant / homogeneous under positive rescaling of its input", CHK)


def perturb_case(ctx, spec, dname, opts, seed):
    """(f): one weak wrong-sign LLR on an otherwise clean word is corrected."""
    import torch
    with quiet():
        enc = cat.build(spec)
    n, k = enc.code_length, enc.code_dimension
    cell = cell_for(spec, dname, opts)
    dec = make_decoder(dname, enc, opts)
    rng = np.random.RandomState(seed)
    M = (rng.rand(12, k) < 0.5).astype(np.float32)
    with quiet():
        C = enc(torch.from_numpy(M)).detach().numpy()
    for mi in range(len(M)):
        for pos in range(n):
            llr = ((1 - 2 * C[mi]) * 4.0).astype(np.float32)
            llr[pos] = -llr[pos] * 0.05
            with quiet():
                ok, out = ctx.call(lambda: dec(torch.from_numpy(llr).unsqueeze(0)), "C10.f_raises", cell, {"kind": "perturb", "spec": spec, "decoder": dname, "opts": opts}, checker=CHK)
            if not ok:
                return
            out = (out[0] if isinstance(out, tuple) else out).detach().numpy().reshape(-1)
            ctx.ev()
            if M[mi].any():
                ctx.nontrivial("p", str(cell), mi, pos)
            if out.shape != (k,) or not np.array_equal(np.rint(out), M[mi]):
                ctx.fail("C10.f_weak_error", cell, {"kind": "perturb1", "spec": spec, "decoder": dname, "opts": opts, "message": M[mi].astype(int).tolist(), "pos": pos},
                         np.rint(out).astype(int).tolist(), M[mi].astype(int).tolist(), "a single weak wrong-sign LLR on a clean word is not corrected", CHK)
                return
    ctx.cls("perturb_" + dname)


def check_case(ctx, cell, case):
    import torch
    k = case["kind"]
    if k == "clean":
        opts = dict(case["opts"])
        if "mag" in case:
            opts["mags"] = [case["mag"]]
        clean_case(ctx, case["spec"], case["decoder"], opts, case.get("seed", 1))
    elif k == "wagner":
        wagner_case(ctx, case["k"], case["llr"])
    elif k == "wagner_batch":
        wagner_batch_case(ctx, case["k"], case["llr"], case["layout"])
    elif k == "forest":
        forest_case(ctx, case["H"], case["llr"], arctanh=case.get("arctanh", True))
    elif k == "minsum":
        minsum_case(ctx, case["H"], case["llr"], case["iters"], case["scale"], case["offset"])
    elif k in ("perturb", "perturb1"):
        perturb_case(ctx, case["spec"], case["decoder"], case["opts"], 1)
    else:
        raise ValueError(k)


# ----------------------------------------------------------------------------- units

def unit_clean(ctx, jobs):
    for spec, dname, opts in jobs:
        clean_case(ctx, spec, dname, opts, ctx.seed + 3)
    ctx.sample({"jobs": [[cat.cell_of(s), d, o] for s, d, o in jobs[:3]], "magnitudes": list(MAGS)})


def unit_clean_generated(ctx, n_cases, nmax):
    def f(x):
        rows, _ = x
        Hn = np.array(rows)
        if gf2.rank(gf2.rows_from_matrix(Hn), Hn.shape[1]) == Hn.shape[1]:
            return
        spec = {"family": "ldpc", "H": rows}
        for dname, opts in (("bp", {"iters": 10}), ("bp", {"iters": 5, "arctanh": False}), ("minsum", {"iters": 10}), ("minsum", {"iters": 10, "normalized": True})):
            clean_case(ctx, spec, dname, {**opts, "mags": [0.5, 5.0, 50.0]}, ctx.seed)
        # the same code described by a check matrix with REDUNDANT rows in the middle (a repeated check, a sum of two checks): the encoder
        # derives its generator from H, so the decoders must still return the message from clean inputs
        if len(rows) >= 2:
            dup = [list(r) for r in rows[:1]] + [list(rows[0])] + [list(r) for r in rows[1:]]
            mid = len(rows) // 2
            summed = [list(r) for r in rows[:mid]] + [[a ^ b for a, b in zip(rows[0], rows[-1])]] + [list(r) for r in rows[mid:]]
            for red in (dup, summed):
                if any(sum(col) == 0 for col in zip(*red)) or any(sum(r) == 0 for r in red):
                    continue  # every variable sits in a check and every check involves a variable, as in the other generated matrices
                rspec = {"family": "ldpc", "H": red}
                for dname, opts in (("bp", {"iters": 10}), ("minsum", {"iters": 10})):
                    clean_case(ctx, rspec, dname, {**opts, "mags": [0.5, 5.0, 50.0]}, ctx.seed)
                ctx.cls("ldpc_redundant_rows")
    draw_cases(sparse_strategy(nmax), n_cases, ctx.seed * 131 + 1, f)
    ctx.sample({"generator": "sparse H, n<=%d" % nmax})


def unit_wagner(ctx, n_cases):
    strat = st.integers(1, 10).flatmap(lambda k: st.tuples(st.just(k), st.lists(st.integers(-4000, 4000), min_size=k + 1, max_size=k + 1)))

    def f(t):
        k, ints = t
        # distinct magnitudes >= 1e-3 apart, no zeros: ties excluded by construction
        mags = set()
        llr = []
        for i, v in enumerate(ints):
            m = abs(v)
            while m in mags or m == 0:
                m += 1
            mags.add(m)
            llr.append((1 if v >= 0 else -1) * m * 1e-3)
        wagner_case(ctx, k, llr)
    draw_cases(strat, n_cases, ctx.seed * 131 + 2, f)
    # batched layouts: rows with and without parity violations mixed, distinct magnitudes per row
    bstrat = st.tuples(st.integers(1, 8), st.integers(2, 6), st.integers(0, 10 ** 6))

    def g(t):
        k, B, sd = t
        r = np.random.RandomState(sd)
        n = k + 1
        mags = np.stack([r.permutation(np.arange(1, n + 1)) for _ in range(B)]) * 0.1 + r.uniform(0, 0.05, size=(B, n))
        signs = np.where(r.rand(B, n) < 0.5, -1.0, 1.0)
        for layout in ("batch", "multiblock", "3d"):
            wagner_batch_case(ctx, k, (mags * signs).tolist(), layout)
    draw_cases(bstrat, max(20, n_cases // 10), ctx.seed * 131 + 12, g)
    ctx.sample({"generator": "SPC k=1..10, real vectors with distinct magnitudes; batches of 2..6 words in (B,n), (B,2n), (2,B/2,n) layouts"})


def unit_forest(ctx, n_cases, nmax, arctanh):
    def f(x):
        H, llr = x
        forest_case(ctx, H, llr, arctanh=arctanh)
    draw_cases(forest_strategy(nmax), n_cases, ctx.seed * 131 + 3 + int(arctanh), f)
    ctx.sample({"generator": "cycle-free H (union-find), LLR in [-1.5,1.5]", "arctanh": arctanh})


def unit_minsum(ctx, n_cases, nmax, scale, offset):
    def f(x):
        rows, llr = x
        minsum_case(ctx, rows, llr, 1 + (hash(str(rows)) % 6), scale, offset)
    draw_cases(sparse_strategy(nmax), n_cases, ctx.seed * 131 + 5 + int(scale * 100) + int(offset * 1000), f)
    ctx.sample({"generator": "sparse H", "scale": scale, "offset": offset})


def unit_perturb(ctx):
    for dname, opts in (("bp", {"iters": 10}), ("minsum", {"iters": 10}), ("minsum", {"iters": 10, "normalized": True})):
        perturb_case(ctx, {"family": "ldpc", "H": H74}, dname, opts, ctx.seed)
        perturb_case(ctx, {"family": "hamming", "mu": 3, "extended": False, "info": "left"}, dname, opts, ctx.seed)
    # soft Reed-Muller (weighted majority): a single weak wrong-sign LLR is outvoted for every RM(r,m)
    for m in range(2, 5):
        for r in range(0, m):
            perturb_case(ctx, {"family": "rm", "r": r, "m": m}, "rm_soft", {}, ctx.seed)
    perturb_case(ctx, {"family": "spc", "k": 5}, "wagner", {}, ctx.seed)
    ctx.sample({"codes": ["ldpc(7,4)", "hamming(7,4)", "RM(r,m) m<=4 (soft)", "SPC(6,5) Wagner"], "perturbation": "one LLR of weight 0.05x with the wrong sign"})


def units(tier, seed):
    T = tier == "thorough"
    us = []
    jobs = []
    ldpc = {"family": "ldpc", "H": H74}
    for it in (1, 2, 5, 10, 20):
        jobs.append((ldpc, "bp", {"iters": it}))
        jobs.append((ldpc, "minsum", {"iters": it}))
    jobs.append((ldpc, "bp", {"iters": 10, "arctanh": False}))
    for sc, of in ((0.75, 0.0), (1.0, 0.2), (0.8, 0.1)):
        jobs.append((ldpc, "minsum", {"iters": 10, "scale": sc, "offset": of}))
    jobs.append((ldpc, "minsum", {"iters": 10, "normalized": True}))
    for spec in ({"family": "hamming", "mu": 3, "extended": False, "info": "left"}, {"family": "hamming", "mu": 3, "extended": True, "info": "left"},
                 {"family": "hamming", "mu": 3, "extended": False, "info": "right"}, {"family": "cyclic", "n": 7, "g": 0b1011, "info": "left"},
                 {"family": "bch", "mu": 4, "delta": 5, "info": "left"}, {"family": "repetition", "n": 5}, {"family": "spc", "k": 4},
                 {"family": "systematic", "P": [[1, 1, 0], [0, 1, 1], [1, 0, 1]], "info": [4, 0, 2]}, {"family": "rm", "r": 1, "m": 3}):
        jobs.append((spec, "bp", {"iters": 10}))
        jobs.append((spec, "minsum", {"iters": 10}))
    for k in range(1, 11):
        jobs.append(({"family": "spc", "k": k}, "wagner", {}))
    for m in range(1, 6 if T else 5):
        for r in range(0, m):
            if sum(__import__("math").comb(m, i) for i in range(r + 1)) <= 16:
                jobs.append(({"family": "rm", "r": r, "m": m}, "rm_soft", {}))
    for i in range(0, len(jobs), 4):
        us.append(Unit(f"clean_{i // 4:02d}", "c10:unit_clean", {"jobs": jobs[i:i + 4]}, 3))
    for sh in range(4 if T else 2):
        us.append(Unit(f"clean_generated_{sh}", "c10:unit_clean_generated", {"n_cases": 600 if T else 25, "nmax": (24 if T else 16) - 4 * (sh % 2)}, 6))
    us.append(Unit("wagner_ml", "c10:unit_wagner", {"n_cases": 20000 if T else 1500}, 5))
    for a in (True, False):
        us.append(Unit(f"bp_forest_arctanh{a}", "c10:unit_forest", {"n_cases": 12000 if T else 250, "nmax": 14 if T else 12, "arctanh": a}, 8))
    for sc, of in ((1.0, 0.0), (0.75, 0.0), (1.0, 0.2), (0.8, 0.1)):
        us.append(Unit(f"minsum_ref_s{sc}_o{of}", "c10:unit_minsum", {"n_cases": 6000 if T else 120, "nmax": 16 if not T else 20, "scale": sc, "offset": of}, 6))
    us.append(Unit("perturb", "c10:unit_perturb", {}, 4))
    return us
