"""C11 — polar encoding = Arikan transform on the 5G information set; SC / BP-polar invert it; SC = textbook SC."""
from __future__ import annotations

import json
import os

import numpy as np
from hypothesis import strategies as st

from ..core import ROOT, Unit, quiet
from ..hyp import draw_cases
from ..ref import soft as RS

PROPERTY = "C11"
RULE = ("cells (N, k, frozen value, interleaving, regime, mask source): N in 2..64 with every k in 1..N-1 for N<=32 (thorough: N up to 1024, sampled k), "
        "5G-ranked and Hypothesis-generated user masks; all 2^k messages for k<=10 (seeded above), batch sizes 1..8; clean LLR magnitudes 0.5..100; "
        "generated real LLR vectors for the SC-vs-textbook clause. Non-trivial: 1<k<N-1 and message not all-zero/all-one; for the textbook clause at least one "
        "reference decision differs from the sign of the channel LLR at that index.")
ASSUMPTIONS = ["the 5G reliability sequence is the pinned copy /verif/data/polar_5g_q.json (taken from the repository's rank_polar.csv at the pinned commit, sha256 recorded); "
               "its structural invariants (permutation of 0..1023, head/tail, universal partial order) are re-checked every run",
               "kverif/ref/soft.py: Kronecker power, bit-reversal, float64 textbook SC (self-checked)",
               "float32 vs float64: the min-sum regime is compared for |LLR|<=100 with reference decision margin>=1e-4; the sum-product regime only when all reference "
               "intermediate magnitudes stay <=12 with margin>=1e-2; other cases are skipped and counted",
               "BP-polar documents that it rejects polar_i=True: that configuration must raise",
               "clean-LLR clause, sum-product regime: skipped (and counted) when the exact weakest information-bit decision LLR is below 1e-25 - long boxplus chains of small LLRs "
               "(N>=512, rate>0.85, |LLR|=0.5) underflow to exactly 0 in float32 whatever the implementation; min-sum has no such limit and is always judged"]
CHK = "c11:check_case"


def q_seq():
    with open(os.path.join(ROOT, "data", "polar_5g_q.json")) as f:
        return json.load(f)["Q"]


def ref_info_mask(N, k):
    q = [x for x in q_seq() if x < N]
    frozen = set(q[: N - k])
    return np.array([i not in frozen for i in range(N)], dtype=bool)


def make_encoder(N, k, frozen_zeros, polar_i, mask=None):
    import torch
    import kaira.models.fec.encoders as E
    kw = {"frozen_zeros": frozen_zeros, "polar_i": polar_i}
    if mask is not None:
        kw.update(load_rank=False, info_indices=torch.tensor(mask, dtype=torch.bool))
    with quiet():
        return E.PolarCodeEncoder(k, N, **kw)


def ref_encode(M, mask, frozen_value, polar_i):
    N = len(mask)
    m = int(np.log2(N))
    U = np.full((len(M), N), frozen_value, dtype=np.int64)
    U[:, mask] = M
    X = (U @ RS.kron_power(m)) % 2
    if polar_i:
        X = X[:, RS.bit_reverse_perm(m)]
    return U, X


def check_cell(ctx, N, k, frozen_zeros, polar_i, mask_list=None, regimes=("sum_product", "min_sum"), seed=1, n_llr=6):
    import torch
    import kaira.models.fec.decoders as D
    cell = {"N": N, "frozen_zeros": frozen_zeros, "polar_i": polar_i, "mask": "user" if mask_list is not None else "5g"}
    case = {"N": N, "k": k, "frozen_zeros": frozen_zeros, "polar_i": polar_i, "mask": mask_list, "seed": seed}
    ok, enc = ctx.call(lambda: make_encoder(N, k, frozen_zeros, polar_i, mask_list), "C11.construct", cell, case, checker=CHK)
    if not ok:
        return
    m = int(np.log2(N))
    mask = np.asarray(enc.info_indices.numpy(), dtype=bool)
    # (a) information set
    ref_mask = np.asarray(mask_list, dtype=bool) if mask_list is not None else ref_info_mask(N, k)
    ctx.check(mask.shape == (N,) and int(mask.sum()) == k and np.array_equal(mask, ref_mask), "C11.a_info_set", cell, case,
              {"positions": np.nonzero(mask)[0].tolist()[:40]}, {"positions": np.nonzero(ref_mask)[0].tolist()[:40]},
              "information positions are not the k most reliable positions of the 5G ranking (or not the user's mask)", CHK)
    # generator matrix
    G = enc.get_generator_matrix().numpy()
    ctx.check(G.shape == (N, N) and np.array_equal(np.rint(G).astype(np.int64), RS.kron_power(m)), "C11.b_generator_matrix", cell, case, None, "m-fold Kronecker power of [[1,0],[1,1]]", checker=CHK)
    rng = np.random.RandomState(seed * 7 + N + k)
    if k <= 10:
        idx = np.arange(1 << k)
        M = ((idx[:, None] >> np.arange(k)[None, :]) & 1).astype(np.int64)
    else:
        M = (rng.rand(48, k) < 0.5).astype(np.int64)
        M[0] = 0
        M[1] = 1
    fv = 0 if frozen_zeros else 1
    U, X = ref_encode(M, mask, fv, polar_i)
    nontriv = 1 < k < N - 1
    # (b) encode, in batches of size 1..8
    outs = []
    ok_all = True
    i, b = 0, 1
    while i < len(M):
        chunk = M[i:i + b]
        ok, y = ctx.call(lambda: enc(torch.from_numpy(chunk.astype(np.float32))), "C11.b_encode_raises", cell, {**case, "message": chunk[0].tolist()}, checker=CHK)
        if not ok:
            ok_all = False
            break
        outs.append(y.detach().numpy().reshape(len(chunk), -1))
        i += b
        b = b % 8 + 1
    if ok_all:
        Y = np.concatenate(outs)
        ctx.ev(len(M))
        if Y.shape != X.shape:
            ctx.fail("C11.b_shape", cell, case, list(Y.shape), list(X.shape), checker=CHK)
        else:
            bad = np.nonzero((np.rint(Y) != X).any(axis=1))[0]
            if nontriv:
                ctx.nontrivial_many(("enc", str(cell), k), [int(j) for j in range(len(M)) if 0 < M[j].sum() < k][:2000])
            if len(bad):
                j = int(bad[0])
                ctx.fail("C11.b_encode", cell, {**case, "message": M[j].tolist()}, np.rint(Y[j]).astype(int).tolist()[:64], X[j].tolist()[:64],
                         "codeword is not u.F^(x m) with the message on the information set and the frozen value elsewhere (bit-reversed when polar_i)", CHK)
                ctx.fail_total += len(bad) - 1
    # (c) clean decode
    sub = M if len(M) <= 64 else M[rng.choice(len(M), size=64, replace=False)]
    _, Xs = ref_encode(sub, mask, fv, polar_i)
    decs = []
    for regime in regimes:
        with quiet():
            ok, d = ctx.call(lambda: D.SuccessiveCancellationDecoder(enc, regime=regime), "C11.c_construct", {**cell, "decoder": "sc", "regime": regime}, case, checker=CHK)
        if ok:
            decs.append(("sc", regime, d))
        if not polar_i:
            with quiet():
                ok, d = ctx.call(lambda: D.BeliefPropagationPolarDecoder(enc, regime=regime, bp_iters=10 if N <= 64 else 20), "C11.c_construct", {**cell, "decoder": "bp_polar", "regime": regime}, case, checker=CHK)
            if ok:
                decs.append(("bp_polar", regime, d))
    if polar_i:
        ctx.ev()
        try:
            with quiet():
                D.BeliefPropagationPolarDecoder(enc)
            ctx.fail("C11.e_bp_rejects_interleaving", cell, case, "decoder object", "ValueError", "BP polar decoder accepted polar_i=True although it documents the restriction", CHK)
        except ValueError:
            pass
        except Exception as e:  # noqa: BLE001
            pass
    for dname, regime, d in decs:
        dcell = {**cell, "decoder": dname, "regime": regime}
        for mag in (0.5, 2.0, 10.0, 100.0):
            llr = ((1 - 2 * Xs) * mag).astype(np.float32)
            if regime == "sum_product":
                # exact-arithmetic size of the weakest information-bit decision LLR (the same for every codeword by symmetry):
                # below float32 range the boxplus chain underflows to exactly 0 in any float32 implementation, so the
                # case is outside what floating-point LLRs can represent (counted, not judged)
                nat0 = llr[0].astype(np.float64)[RS.bit_reverse_perm(m)] if polar_i else llr[0].astype(np.float64)
                _, dl, _ = RS.sc_decode(nat0, mask, fv, "sum_product")
                if mask.any() and np.abs(dl[mask]).min() < 1e-25:
                    ctx.cls("clean_sum_product_underflows_float32_skipped")
                    continue
            with quiet():
                ok, out = ctx.call(lambda: d(torch.from_numpy(llr)), "C11.c_clean_raises", dcell, {**case, "decoder": dname, "regime": regime, "mag": mag}, checker=CHK)
            if not ok:
                continue
            out = out.detach().numpy()
            ctx.ev(len(sub))
            if out.shape != sub.shape:
                ctx.fail("C11.c_shape", dcell, {**case, "decoder": dname, "regime": regime, "mag": mag}, list(out.shape), list(sub.shape), checker=CHK)
                continue
            bad = np.nonzero((np.rint(out) != sub).any(axis=1))[0]
            if nontriv:
                ctx.nontrivial_many(("dec", str(dcell), k, mag), list(range(len(sub)))[:200])
            if len(bad):
                j = int(bad[0])
                ctx.fail("C11.c_clean_decode", dcell, {**case, "decoder": dname, "regime": regime, "mag": mag, "message": sub[j].tolist()},
                         np.rint(out[j]).astype(int).tolist()[:40], sub[j].tolist()[:40], "noise-free LLRs are not decoded to the message", CHK)
    # (c') the same decoder object after it has seen an arbitrary noisy batch of the same size: noise-free LLRs of other messages must
    # still decode to those messages (no state may survive a call)
    for dname, regime, d in decs:
        dcell = {**cell, "decoder": dname, "regime": regime, "mode": "after_noisy_call"}
        mag = 10.0
        if regime == "sum_product":
            nat0 = ((1 - 2 * Xs[0]) * mag).astype(np.float64)
            nat0 = nat0[RS.bit_reverse_perm(m)] if polar_i else nat0
            _, dl, _ = RS.sc_decode(nat0, mask, fv, "sum_product")
            if mask.any() and np.abs(dl[mask]).min() < 1e-25:
                continue
        noisy = (rng.randn(*Xs.shape) * rng.choice([1.0, 30.0, 100.0])).astype(np.float32)
        perm = rng.permutation(len(sub))
        llr = ((1 - 2 * Xs[perm]) * mag).astype(np.float32)
        rcase = {**case, "decoder": dname, "regime": regime, "mag": mag, "after_noisy_call": True}

        def two_calls():
            d(torch.from_numpy(noisy))
            return d(torch.from_numpy(llr))
        with quiet():
            ok, out = ctx.call(two_calls, "C11.c_clean_raises", dcell, rcase, checker=CHK)
        if not ok:
            continue
        out = out.detach().numpy()
        ctx.ev(len(sub))
        if out.shape != sub.shape or (np.rint(out) != sub[perm]).any():
            ctx.fail("C11.c_clean_decode", dcell, rcase, None, None, "noise-free LLRs are not decoded to the message by a decoder object that decoded a noisy batch of the same size before", CHK)
        ctx.cls("decoder_reuse_after_noisy_call")
    # (d) SC vs textbook on generated LLRs
    br = RS.bit_reverse_perm(m)
    for dname, regime, d in decs:
        if dname != "sc":
            continue
        dcell = {**cell, "decoder": "sc", "regime": regime}
        kept = []
        for t in range(n_llr):
            scale = [1.0, 3.0, 0.3, 10.0, 30.0, 100.0][t % 6] if regime == "min_sum" else [1.0, 2.0, 0.5, 3.0, 1.5, 0.8][t % 6]
            llr = (rng.randn(N) * scale).astype(np.float32)
            sc_textbook(ctx, d, dcell, {**case, "decoder": "sc", "regime": regime}, llr, mask, fv, polar_i, regime, br)
            kept.append(llr)
        # the same words inside ONE batch together with a strong noise-free codeword (|LLR| = 40): every row must get the decision it gets
        # alone (those were just compared with the textbook rule) - what one row needs numerically must not change another row's arithmetic
        if len(kept) >= 2 and len(Xs):
            big = ((1 - 2 * Xs[0]) * 40.0).astype(np.float32)
            batch = np.stack([big] + kept[:5])
            bcase = {**case, "decoder": "sc", "regime": regime, "batch": "mixed_magnitudes"}
            with quiet():
                ok, ob = ctx.call(lambda: d(torch.from_numpy(batch)), "C11.d_raises", {**dcell, "batch": "mixed"}, bcase, checker=CHK)
                singles = [d(torch.from_numpy(r).unsqueeze(0)).detach().numpy().reshape(-1) for r in batch] if ok else []
            if ok:
                ob = ob.detach().numpy()
                ctx.ev(len(batch))
                bad = [i for i in range(len(batch)) if not np.array_equal(np.rint(ob[i]), np.rint(singles[i]))]
                ctx.check(not bad, "C11.d_sc_textbook", {**dcell, "batch": "mixed"}, {**bcase, "rows_that_differ": bad[:4]}, None, None,
                          "a word decoded in a batch with words of other magnitudes gets other decisions than decoded alone (and than the textbook rule)", CHK)
    ctx.cls(f"cells_N{N}")
    if len(ctx.samples) < 2:
        ctx.sample({"cell": cell, "k": k, "info_positions": np.nonzero(mask)[0].tolist()[:16], "messages": len(M)})


def sc_textbook(ctx, d, dcell, case, llr, mask, fv, polar_i, regime, br):
    import torch
    l64 = llr.astype(np.float64)
    nat = l64[br] if polar_i else l64
    u_ref, dec_llr, mx = RS.sc_decode(nat, mask, fv, regime, clip=float(getattr(d, "clip", 1000.0)) if regime == "min_sum" else None)
    margin = np.abs(dec_llr[mask]).min() if mask.any() else 1.0
    if regime == "min_sum":
        # the reference saturates the check node at the decoder's documented clip, so large accumulated values are inside the modelled domain;
        # float32 sums stay exact enough while the decision margin is not tiny relative to the largest intermediate value
        if margin < max(1e-4, 1e-5 * mx):
            ctx.cls("sc_textbook_skipped_margin")
            return
    else:
        if mx > 12 or margin < 1e-2:
            ctx.cls("sc_textbook_skipped_range")
            return
    with quiet():
        ok, out = ctx.call(lambda: d(torch.from_numpy(llr).unsqueeze(0)), "C11.d_raises", dcell, {**case, "llr": llr.tolist()}, checker=CHK)
    if not ok:
        return
    out = np.rint(out.detach().numpy().reshape(-1)).astype(np.int64)
    exp = u_ref[mask]
    ctx.ev()
    chan_dec = (nat < 0).astype(np.int64)
    if (u_ref[mask] != chan_dec[mask]).any():
        ctx.nontrivial("sc", str(dcell), hash(llr.tobytes()))
    ctx.cls("sc_textbook_compared_" + regime)
    if out.shape != exp.shape or not np.array_equal(out, exp):
        ctx.fail("C11.d_sc_textbook", dcell, {**case, "llr": [float(v) for v in llr]}, out.tolist()[:40], exp.tolist()[:40],
                 "successive-cancellation output differs from the textbook SC decision rule", CHK)


def check_case(ctx, cell, case):
    import torch
    import kaira.models.fec.decoders as D
    N, k = case["N"], case["k"]
    if "llr" in case:
        enc = make_encoder(N, k, case["frozen_zeros"], case["polar_i"], case.get("mask"))
        with quiet():
            d = D.SuccessiveCancellationDecoder(enc, regime=case["regime"])
        mask = np.asarray(enc.info_indices.numpy(), dtype=bool)
        m = int(np.log2(N))
        sc_textbook(ctx, d, cell or {"N": N}, {k2: v for k2, v in case.items() if k2 != "llr"}, np.asarray(case["llr"], dtype=np.float32), mask,
                    0 if case["frozen_zeros"] else 1, case["polar_i"], case["regime"], RS.bit_reverse_perm(m))
    else:
        check_cell(ctx, N, k, case["frozen_zeros"], case["polar_i"], case.get("mask"), seed=case.get("seed", 1))


def unit_cells(ctx, cells):
    for (N, k, fz, pi) in cells:
        check_cell(ctx, N, k, fz, pi, seed=ctx.seed)


def unit_user_masks(ctx, n_cases):
    strat = st.integers(1, 5).flatmap(lambda m: st.tuples(st.just(1 << m), st.permutations(list(range(1 << m))), st.integers(1, (1 << m) - 1), st.booleans(), st.booleans()))

    def f(t):
        N, perm, k, fz, pi = t
        mask = [False] * N
        for i in perm[:k]:
            mask[i] = True
        check_cell(ctx, N, k, fz, pi, mask_list=mask, seed=ctx.seed, n_llr=2)
    draw_cases(strat, n_cases, ctx.seed * 53 + 1, f)
    # long codes with masks that are not reliability-ordered: accumulated LLRs pass the check-node clip (min-sum, |LLR| up to 100)
    rng = np.random.RandomState(ctx.seed + 77)
    for N in (256, 1024):
        for rep in range(2):
            k = int(rng.randint(N // 4, 3 * N // 4))
            mask = np.zeros(N, dtype=bool)
            mask[rng.choice(N, size=k, replace=False)] = True
            check_cell(ctx, N, k, bool(rep), False, mask_list=mask.tolist(), regimes=("min_sum",), seed=ctx.seed + rep, n_llr=12)


def unit_sequence_invariants(ctx):
    """pinned 5G sequence: permutation, head/tail, universal partial order; and the library's CSV equals it."""
    import hashlib
    q = q_seq()
    cell = {"data": "polar_5g_sequence"}
    case = {"kind": "sequence"}
    ctx.check(sorted(q) == list(range(1024)), "C11.a_sequence_permutation", cell, case, checker="c11:unit_sequence_replay")
    ctx.check(q[:10] == [0, 1, 2, 4, 8, 16, 32, 3, 5, 64] and q[-3:] == [1021, 1022, 1023], "C11.a_sequence_head_tail", cell, case, q[:10], None, checker="c11:unit_sequence_replay")
    pos = {v: i for i, v in enumerate(q)}
    viol = 0
    for i in range(1024):
        for b in range(10):
            j = i | (1 << b)
            if j != i and pos[i] > pos[j]:
                viol += 1
    ctx.ev(1024 * 10)
    ctx.check(viol == 0, "C11.a_sequence_partial_order", cell, case, viol, 0, "pinned sequence violates the universal partial order", "c11:unit_sequence_replay")
    import kaira.models.fec as fec
    path = os.path.join(os.path.dirname(fec.__file__), "rank_polar.csv")
    with open(path) as f:
        lines = f.read().strip().splitlines()[1:]
    lib_q = [int(l.split()[1]) for l in lines]
    ctx.check(lib_q == q, "C11.a_library_sequence", cell, case, {"first_diff": next((i for i, (a, b) in enumerate(zip(lib_q, q)) if a != b), None), "len": len(lib_q)}, "the pinned 5G sequence",
              "the library's rank_polar.csv differs from the pinned 5G reliability sequence", "c11:unit_sequence_replay")
    ctx.nontrivial("seq", 1)
    ctx.nontrivial("seq", 2)
    ctx.sample({"Q_head": q[:12], "Q_tail": q[-6:]})


def unit_sequence_replay(ctx, cell, case):
    unit_sequence_invariants(ctx)


def units(tier, seed):
    T = tier == "thorough"
    rng = np.random.RandomState(seed)
    cells = []
    for m in range(1, 7):
        N = 1 << m
        ks = list(range(1, N)) if N <= 32 else sorted(set(rng.choice(np.arange(1, N), size=12 if T else 5, replace=False).tolist()))
        for k in ks:
            for fz in (True, False):
                for pi in (False, True):
                    if N > 16 and not T and (k + fz + pi) % 2:
                        continue
                    cells.append((N, k, fz, pi))
    if T:
        for m in range(7, 11):
            N = 1 << m
            for k in sorted(set(rng.choice(np.arange(1, N), size=10, replace=False).tolist())):
                for fz, pi in ((True, False), (False, True), (True, True), (False, False)):
                    cells.append((N, int(k), fz, pi))
    else:
        for N, k in ((128, 64), (256, 77), (1024, 512)):
            cells.append((N, k, True, False))
            cells.append((N, k, False, True))

    def w(c):
        return c[0] * (1 + min(c[1], 10)) / 64
    cells.sort(key=lambda c: -w(c))
    nsh = 60 if T else 30
    shards, loads = [[] for _ in range(nsh)], [0.0] * nsh
    for c in cells:
        i = loads.index(min(loads))
        shards[i].append(c)
        loads[i] += w(c)
    us = [Unit(f"cells_{i:02d}", "c11:unit_cells", {"cells": sh}, loads[i]) for i, sh in enumerate(shards) if sh]
    us.append(Unit("user_masks", "c11:unit_user_masks", {"n_cases": 400 if T else 40}, 10))
    us.append(Unit("sequence", "c11:unit_sequence_invariants", {}, 1))
    return us
