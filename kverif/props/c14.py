"""C14 — constellations: 2^b distinct points, bijective labels, unit energy, Gray neighbours; Gray utilities."""
from __future__ import annotations

import numpy as np
from hypothesis import strategies as st

from .. import modcat as mc
from ..core import Unit
from ..hyp import draw_cases

PROPERTY = "C14"
RULE = ("per scheme/order/option: the published table (constellation, bit_patterns; both pi/4 constellations) and the mapper-induced table "
        "{bit group -> modulated point} (first symbol after a reset; OQPSK rails read from a two-symbol probe) are examined: all point pairs, all "
        "nearest-neighbour pairs. Gray utilities: all n < 2^16 (exhaustive) + Hypothesis-generated n < 2^60, scalar, list and tensor forms. "
        "Non-trivial: M>=4 tables / n>=2; distinct = (scheme options, table kind) resp. n.")
ASSUMPTIONS = ["nearest neighbours: pairs within (1+1e-4) of the minimum pairwise Euclidean distance", "Gray is 'requested' for gray=True options and for QPSK/OQPSK/DQPSK/DBPSK whose docs say Gray-coded"]
CHK = "c14:check_table"
CHKG = "c14:check_gray"


def gray_requested(s):
    sc = s["scheme"]
    if "gray" in s:
        return bool(s["gray"])
    return sc in ("qpsk", "oqpsk", "dqpsk", "dbpsk", "bpsk")


def unit_energy_expected(s):
    sc = s["scheme"]
    if sc in ("bpsk", "psk", "dpsk", "dbpsk", "dqpsk", "pi4qpsk"):
        return True
    if sc in ("qpsk", "oqpsk", "qam", "pam"):
        return bool(s.get("normalize"))
    return False


def tables(s):
    """yield (kind, points, labels)"""
    import torch
    mod, dem = mc.build(s)
    b = mc.bits_per_symbol(s)
    out = []
    pub = mc.published_table(mod)
    if pub is not None:
        out.append(("published", pub[0], pub[1]))
    if s["scheme"] == "pi4qpsk":
        bp = np.rint(mod.bit_patterns.numpy()).astype(int)
        out.append(("published_rotated", mod.qpsk_rotated.numpy().astype(np.complex128), bp))
        G = mc.all_groups(2)
        pts0, pts1 = [], []
        for g in G:
            mc.reset(mod)
            y = mod(torch.from_numpy(np.concatenate([g, g])).float().unsqueeze(0)).reshape(-1)
            pts0.append(complex(y[0]))
            pts1.append(complex(y[1]))
        out.append(("induced", np.array(pts0), G.astype(int)))
        out.append(("induced_rotated", np.array(pts1), G.astype(int)))
    elif s["scheme"] == "oqpsk":
        G = mc.all_groups(2)
        pts = []
        for g in G:
            mc.reset(mod)
            y = mod(torch.tensor([[0.0, g[1], g[0], 0.0]])).reshape(-1)
            pts.append(complex(y[1]))
        out.append(("induced", np.array(pts), G.astype(int)))
    elif s["scheme"] != "identity":
        pts, G = mc.induced_table(s, mod)
        out.append(("induced", pts, G))
    return out, b


def check_table(ctx, cell, case):
    s = case["scheme"]
    tabs, b = tables(s)
    M = 2 ** b
    for kind, pts, labels in tabs:
        c = {**s, "table": kind}
        cc = {"scheme": s, "table": kind}
        if M >= 4:
            ctx.nontrivial(c)
        ctx.check(len(pts) == M and labels.shape == (M, b), "C14.a_size", c, cc, [len(pts), list(labels.shape)], [M, [M, b]], "table does not have 2^b points / labels", CHK)
        if len(pts) != len(labels):
            continue
        D = np.abs(pts[:, None] - pts[None, :])
        iu = np.triu_indices(len(pts), 1)
        dmin = D[iu].min() if len(pts) > 1 else 1.0
        ctx.ev(len(iu[0]))
        ctx.check(dmin > 1e-6, "C14.a_distinct_points", c, cc, float(dmin), "> 1e-6", "two constellation points coincide", CHK)
        vals = [int("".join(str(int(x)) for x in row), 2) for row in labels]
        ctx.check(sorted(vals) == list(range(M)), "C14.b_labels_bijective", c, cc, sorted(vals)[:16], "all b-bit patterns exactly once", "labels are not a bijection onto the b-bit patterns", CHK)
        if unit_energy_expected(s):
            e = float(np.mean(np.abs(pts) ** 2))
            ctx.check(abs(e - 1) < 1e-5, "C14.d_unit_energy", c, cc, e, 1.0, "average constellation energy is not 1", CHK)
        if gray_requested(s) and M >= 4 and dmin > 1e-6:
            bad = []
            for i, j in zip(*iu):
                if D[i, j] <= dmin * (1 + 1e-4):
                    ctx.ev()
                    hd = int(np.sum(labels[i] != labels[j]))
                    if hd != 1:
                        bad.append([int(i), int(j), hd])
            if bad:
                ctx.fail("C14.e_gray_neighbours", c, cc, {"pairs(i,j,hamming)": bad[:6], "count": len(bad)}, "every nearest-neighbour pair differs in exactly one bit",
                         "Gray labelling requested but nearest neighbours differ in != 1 bit", CHK)
        ctx.cls("tables_" + kind)
    # (c) published == induced (same point for the same label)
    d = {k: (p, l) for k, p, l in tabs}
    for a, bb in (("published", "induced"), ("published_rotated", "induced_rotated")):
        if a in d and bb in d and len(d[a][0]) == len(d[bb][0]) == M:
            pa = {int("".join(str(int(x)) for x in row), 2): p for p, row in zip(*d[a])}
            pb = {int("".join(str(int(x)) for x in row), 2): p for p, row in zip(*d[bb])}
            if set(pa) == set(pb):
                diff = max(abs(pa[k] - pb[k]) for k in pa)
                ctx.check(diff < 1e-5, "C14.c_tables_agree", {**s, "table": a + "_vs_induced"}, {"scheme": s, "table": a}, float(diff), "< 1e-5",
                          "published label table disagrees with what the modulator maps bits to", CHK)
    if len(ctx.samples) < 2 and tabs:
        k, p, l = tabs[0]
        ctx.sample({"scheme": s, "table": k, "points": [[round(float(z.real), 4), round(float(z.imag), 4)] for z in p[:8]], "labels": l[:8].tolist()})


def unit_tables(ctx, schemes):
    for s in schemes:
        ok, _ = ctx.call(lambda: check_table(ctx, None, {"scheme": s}), "C14.table_raises", dict(s), {"scheme": s}, checker=CHK)


# ----------------------------------------------------------------------------- gray utilities

def _utils():
    from kaira.modulations import utils as U
    return U


def gray_cell(n):
    return {"util": "gray", "n": int(n)} if n < (1 << 16) else {"util": "gray", "n": "large"}


def check_gray(ctx, cell, case):
    U = _utils()
    n = int(case["n"])
    c = gray_cell(n)
    if n >= 2:
        ctx.nontrivial("g", n)
    ok, g = ctx.call(lambda: U.binary_to_gray(n), "C14.f_raises", c, case, checker=CHKG)
    if not ok:
        return
    ctx.check(g == n ^ (n >> 1), "C14.f_b2g", c, case, g, n ^ (n >> 1), "binary_to_gray(n) != n ^ (n>>1)", CHKG)
    ok, back = ctx.call(lambda: U.gray_to_binary(g), "C14.f_raises", c, case, checker=CHKG)
    if ok:
        ctx.check(back == n, "C14.f_g2b_of_b2g", c, case, back, n, "gray_to_binary(binary_to_gray(n)) != n", CHKG)
    ok, b = ctx.call(lambda: U.gray_to_binary(n), "C14.f_raises", c, case, checker=CHKG)
    if ok:
        ok2, g2 = ctx.call(lambda: U.binary_to_gray(b), "C14.f_raises", c, case, checker=CHKG)
        if ok2:
            ctx.check(g2 == n, "C14.f_b2g_of_g2b", c, case, g2, n, "binary_to_gray(gray_to_binary(n)) != n", CHKG)
    ok, g1 = ctx.call(lambda: U.binary_to_gray(n + 1), "C14.f_raises", c, case, checker=CHKG)
    if ok:
        ctx.check(bin(g ^ g1).count("1") == 1, "C14.f_adjacent", c, case, bin(g ^ g1).count("1"), 1, "gray(n) and gray(n+1) do not differ in exactly one bit", CHKG)


def unit_gray_exhaustive(ctx, lo, hi):
    for n in range(lo, hi):
        check_gray(ctx, None, {"n": n})
    ctx.exhaustive("gray_n_lt_2^16", True)
    ctx.cls("gray_scalar_enumerated", hi - lo)
    # array forms on the same range, in chunks (list and tensor), compared elementwise with the scalar forms
    import torch
    U = _utils()
    for s in range(lo, hi, 512):
        ns = list(range(s, min(hi, s + 512)))
        exp_g = [U.binary_to_gray(n) for n in ns]
        exp_b = [U.gray_to_binary(n) for n in ns]
        for form, arg in (("list", ns), ("tensor", torch.tensor(ns, dtype=torch.int64))):
            c = {"util": "gray_array", "form": form}
            case = {"lo": s, "hi": ns[-1] + 1, "form": form}
            ok, g = ctx.call(lambda: U.binary_array_to_gray(arg), "C14.f_array_raises", c, case, checker="c14:check_gray_array")
            if ok:
                ctx.check(g.tolist() == exp_g, "C14.f_array_b2g", c, case, None, None, "binary_array_to_gray differs elementwise from binary_to_gray", "c14:check_gray_array")
            ok, bb = ctx.call(lambda: U.gray_array_to_binary(arg), "C14.f_array_raises", c, case, checker="c14:check_gray_array")
            if ok:
                ctx.check(bb.tolist() == exp_b, "C14.f_array_g2b", c, case, None, None, "gray_array_to_binary differs elementwise from gray_to_binary", "c14:check_gray_array")
    ctx.sample({"n": lo + 5, "gray": (lo + 5) ^ ((lo + 5) >> 1)})


def check_gray_array(ctx, cell, case):
    import torch
    U = _utils()
    ns = list(range(case["lo"], case["hi"]))
    arg = ns if case["form"] == "list" else torch.tensor(ns, dtype=torch.int64)
    ctx.check(U.binary_array_to_gray(arg).tolist() == [U.binary_to_gray(n) for n in ns], "C14.f_array_b2g", cell, case, checker="c14:check_gray_array")
    ctx.check(U.gray_array_to_binary(arg).tolist() == [U.gray_to_binary(n) for n in ns], "C14.f_array_g2b", cell, case, checker="c14:check_gray_array")


def _g2b_ref(g):
    b = 0
    while g:
        b ^= g
        g >>= 1
    return b


def check_gray_array_values(ctx, cell, case):
    """array forms (list / int64 tensor) on arbitrary integers < 2^60, against n ^ (n >> 1) and its inverse computed on Python ints."""
    import torch
    U = _utils()
    ns = [int(v) for v in case["ns"]]
    arg = ns if case["form"] == "list" else torch.tensor(ns, dtype=torch.int64)
    cell = cell or {"util": "gray_array", "form": case["form"], "range": "generated"}
    ok, g = ctx.call(lambda: U.binary_array_to_gray(arg), "C14.f_array_raises", cell, case, checker="c14:check_gray_array_values")
    if ok:
        ctx.ev(len(ns))
        ctx.check([int(v) for v in g.tolist()] == [v ^ (v >> 1) for v in ns], "C14.f_array_b2g", cell, case, None, None, "binary_array_to_gray differs elementwise from n XOR (n >> 1)", "c14:check_gray_array_values")
    ok, b = ctx.call(lambda: U.gray_array_to_binary(arg), "C14.f_array_raises", cell, case, checker="c14:check_gray_array_values")
    if ok:
        ctx.ev(len(ns))
        ctx.check([int(v) for v in b.tolist()] == [_g2b_ref(v) for v in ns], "C14.f_array_g2b", cell, case, None, None, "gray_array_to_binary differs elementwise from the inverse Gray map", "c14:check_gray_array_values")


def unit_gray_generated(ctx, n):
    seen = []

    def f(x):
        check_gray(ctx, None, {"n": x})
        ctx.cls("gray_generated")
        if x not in (512, 1022, 1023, 1365, 1638):  # the inputs of the recorded KF-C14-GRAY-1023 finding are reported by the scalar clause
            seen.append(x)
    draw_cases(st.one_of(st.integers(0, 2 ** 60), st.integers(0, 60).map(lambda k: 2 ** k), st.integers(1, 60).map(lambda k: 2 ** k - 1),
                         st.integers(0, 2 ** 20)), n, ctx.seed * 31 + 5, f)
    for i in range(0, len(seen), 64):
        for form in ("list", "tensor"):
            check_gray_array_values(ctx, None, {"ns": seen[i:i + 64], "form": form})
            ctx.nontrivial("gray_array_generated", form, i)
    U = _utils()
    for bad in (-1, -5):
        c = {"util": "gray", "n": "negative"}
        for fn in (U.binary_to_gray, U.gray_to_binary):
            ctx.ev()
            try:
                r = fn(bad)
                ctx.fail("C14.f_negative", c, {"n": bad}, r, "ValueError", "negative input accepted", CHKG)
            except ValueError:
                pass


def unit_gray_fuzz(ctx, runs):
    """atheris campaign on the Gray utilities (finds magic-constant special cases that sampling cannot)."""
    from ..fuzz import run_atheris
    res = run_atheris("gray", runs=runs, seed=ctx.seed)
    ctx.cls("atheris_executions", res.get("executions", 0))
    if res.get("skipped"):
        ctx.note("atheris unavailable: " + res["skipped"])
        return
    for n in res.get("findings", []):
        check_gray(ctx, None, {"n": n})


def units(tier, seed):
    T = tier == "thorough"
    sch = mc.all_schemes(extended=True)
    us = []
    for i in range(0, len(sch), 6):
        us.append(Unit(f"tables_{i // 6:02d}", "c14:unit_tables", {"schemes": sch[i:i + 6]}, 2))
    for i in range(16):
        us.append(Unit(f"gray_exh_{i:02d}", "c14:unit_gray_exhaustive", {"lo": i * 4096, "hi": (i + 1) * 4096}, 3))
    us.append(Unit("gray_generated", "c14:unit_gray_generated", {"n": 20000 if T else 3000}, 3))
    us.append(Unit("gray_fuzz", "c14:unit_gray_fuzz", {"runs": 3000000 if T else 150000}, 6))
    return us
