"""C07 — additive-noise channels deliver exactly the configured noise power / SNR."""
from __future__ import annotations

import numpy as np

from ..core import Unit

PROPERTY = "C07"
RULE = ("configurations (channel, parameterisation, dtype, signal power decade, value): AWGN (power, SNR), Laplacian (power, SNR; scale for the unit law), Nonlinear with noise "
        "(identity and cubic f), FlatFading noise stage (csi=1), add_noise_for_snr; real and complex inputs; signal powers 1e-3..1e3; SNR -20..40 dB; shapes 1-D/2-D/4-D. "
        "Deterministic same-seed relations on every configuration (noise(P2)=sqrt(P2/P1).noise(P1); noise(SNR)=noise(power=Ps/snr_lin) with Ps in float64; input scaling); "
        "conversions on dense grids incl. tensors; statistics (mean 0, mean |n|^2 = configured power, measured SNR with the library's own tools) on N=4e6 (thorough 3.2e7) samples at "
        "z=7.5 (two-sided p<6.4e-14 per test, <2000 tests per run => per-run false-alarm bound <1.3e-10). Non-trivial: distinct (channel, parameterisation, dtype, power decade, value).")
ASSUMPTIONS = ["torch's global RNG seeded per call: the same seed reproduces the same unit noise for any power/SNR (noise = unit . sqrt(power))",
               "tolerances from the moments of the specified law: Var(n^2)=2s^4 (real Gaussian), s^4 (complex Gaussian), 5s^4 (real Laplace), 2.5s^4 (complex Laplace)",
               "SNR channels cast the noise power to float32: deterministic relations use 2e-4 relative tolerance",
               "the SNR metric adds eps=1.19e-7 to the noise power (documented): metric clauses are run at noise power >= 1e-3 with that bias included in the tolerance",
               "LaplacianChannel(scale=b) documents b as the per-component scale; only its power / SNR parameterisations claim a total noise power"]
CHK = "c07:check_config"
Z = 7.5


def make_channel(kind, mode, value):
    import torch
    import kaira.channels as C
    kw = {"avg_noise_power": value} if mode == "power" else {"snr_db": value}
    if kind == "awgn":
        return C.AWGNChannel(**kw)
    if kind == "laplacian":
        return C.LaplacianChannel(**kw)
    if kind == "nonlinear_id":
        return C.NonlinearChannel(lambda t: t, add_noise=True, **kw)
    if kind in ("nonlinear_id_cartesian", "nonlinear_id_polar"):
        # identity nonlinearity applied per I/Q rail resp. to the magnitude: the noise stage must be the same as in 'direct' mode
        return C.NonlinearChannel(lambda t: t, add_noise=True, complex_mode=kind.rsplit("_", 1)[1], **kw)
    if kind == "nonlinear_cubic":
        return C.NonlinearChannel(lambda t: t + 0.1 * t ** 3 if not torch.is_complex(t) else t + 0.1 * t * torch.abs(t) ** 2, add_noise=True, **kw)
    if kind == "fading_stage":
        return C.FlatFadingChannel("rayleigh", coherence_time=1, **kw)
    raise ValueError(kind)


def stage_signal(kind, x):
    """the signal the noise is added to."""
    import torch
    if kind == "nonlinear_cubic":
        return x + 0.1 * x ** 3 if not torch.is_complex(x) else x + 0.1 * x * torch.abs(x) ** 2
    if kind == "fading_stage" and not torch.is_complex(x):
        return torch.complex(x, torch.zeros_like(x))
    return x


def run(kind, mode, value, x, seed):
    import torch
    ch = make_channel(kind, mode, value)
    torch.manual_seed(seed)
    if kind == "fading_stage":
        csi = torch.ones(1, dtype=torch.complex64)
        if x.dim() == 1:
            return ch(x, csi=csi)
        xx = x.reshape(x.shape[0], -1)
        return ch(xx, csi=csi).reshape(x.shape)
    return ch(x)


def gen_signal(shape, power, cplx, rng, family="gaussian"):
    """family: gaussian (zero mean) | dc_offset (mean carries 80 % of the power) | constant | unipolar (on-off). SNR is defined through the
    signal POWER, not its variance, so signals with a DC component are the cases that tell the two apart."""
    import torch
    if family != "gaussian":
        n = int(np.prod(shape))
        if family == "constant":
            a = np.ones(n)
        elif family == "unipolar":
            a = (rng.rand(n) < 0.5).astype(np.float64)
            a[0] = 1.0
        else:
            a = 2.0 + rng.randn(n)
        a = a.astype(np.complex128 if cplx else np.float64)
        if cplx:
            a = a * np.exp(1j * 0.7)
        a = (a / np.sqrt(np.mean(np.abs(a) ** 2)) * np.sqrt(power)).reshape(shape)
        return torch.from_numpy(a.astype(np.complex64 if cplx else np.float32))
    if cplx:
        a = (rng.randn(*shape) + 1j * rng.randn(*shape)) / np.sqrt(2)
        return torch.from_numpy((a * np.sqrt(power)).astype(np.complex64))
    return torch.from_numpy((rng.randn(*shape) * np.sqrt(power)).astype(np.float32))


def p64(t):
    import torch
    a = t.detach().numpy()
    return float(np.mean(np.abs(a.astype(np.complex128 if np.iscomplexobj(a) else np.float64)) ** 2))


def check_config(ctx, cell, case):
    """deterministic relations for one (kind, dtype, shape, signal power)."""
    import torch
    kind, cplx, shape, ps = case["kind"], case["complex"], tuple(case["shape"]), case["signal_power"]
    cell = cell or {"channel": kind, "dtype": "complex" if cplx else "real"}
    rng = np.random.RandomState(case.get("seed", ctx.seed))
    x = gen_signal(shape, ps, cplx, rng, case.get("family", "gaussian"))
    s = stage_signal(kind, x)
    Ps = p64(s)
    seed = 1234 + case.get("seed", ctx.seed)
    # unit noise of this seed, extracted at a noise power large enough that the float32 rounding of s + n is negligible
    max_s0 = float(np.max(np.abs(s.detach().numpy())))
    p_big = float(max(1.0, max_s0 ** 2))
    ok, y1 = ctx.call(lambda: run(kind, "power", p_big, x, seed), "C07.raises", cell, case, checker=CHK)
    if not ok:
        return
    ctx.check(tuple(y1.shape) == tuple(x.shape), "C07.shape", cell, case, list(y1.shape), list(x.shape), checker=CHK)
    x_before = x.clone()
    run(kind, "snr", 3.0, x, seed)
    ctx.check(bool(torch.equal(x, x_before)), "C07.input_unmodified", cell, case, None, None, "channel modified its input tensor", CHK)
    unit = (y1 - s).detach().numpy().astype(np.complex128 if (cplx or kind == "fading_stage") else np.float64) / np.sqrt(p_big)
    scale_u = float(np.sqrt(np.mean(np.abs(unit) ** 2)))
    max_u = float(np.max(np.abs(unit)))
    max_s = float(np.max(np.abs(s.detach().numpy())))

    def rel_err(a, b):
        return float(np.max(np.abs(a - b)) / (np.max(np.abs(b)) + 1e-30))
    for P in (1e-3, 0.04, 7.0, 250.0):
        yP = run(kind, "power", P, x, seed)
        nP = (yP - s).detach().numpy()
        ctx.ev()
        ctx.nontrivial(cell, "power", P, shape, ps)
        e = rel_err(nP, np.sqrt(P) * unit)
        # float32 addition error relative to the signal magnitude
        # y = s + n is rounded to float32, so (y - s) carries an absolute error of ~eps32 * max|s|
        tol = 2e-4 + 4e-7 * max_s / (np.sqrt(P) * max(max_u, 1e-9))
        if e > tol:
            ctx.fail("C07.b_power_scaling", {**cell, "mode": "power"}, {**case, "value": P}, {"rel_err": e}, {"noise": "sqrt(P) x unit noise of the same seed", "tol": tol},
                     "noise for power P is not sqrt(P) times the unit-power noise of the same seed", CHK)
    for snr in (-20.0, -3.0, 0.0, 10.0, 40.0):
        ySN = run(kind, "snr", snr, x, seed)
        nS = (ySN - s).detach().numpy()
        Pexp = Ps / 10 ** (snr / 10)
        ctx.ev()
        ctx.nontrivial(cell, "snr", snr, shape, ps)
        e = rel_err(nS, np.sqrt(Pexp) * unit)
        tol = 3e-4 + 4e-7 * max_s / (np.sqrt(Pexp) * max(max_u, 1e-9))
        if e > tol:
            ctx.fail("C07.b_snr_definition", {**cell, "mode": "snr"}, {**case, "value": snr}, {"rel_err": e, "noise_power_ratio": float(np.mean(np.abs(nS) ** 2) / (Pexp * scale_u ** 2))},
                     {"noise": "sqrt(Ps/10^(snr/10)) x unit noise", "tol": tol}, "with an SNR in dB the noise is not scaled to signal_power / 10^(snr/10)", CHK)
    # signal scaled by a in SNR mode: noise scales by a
    if kind not in ("nonlinear_cubic",):
        a = 3.0
        n1 = (run(kind, "snr", 5.0, x, seed) - s).detach().numpy()
        n2 = (run(kind, "snr", 5.0, a * x, seed) - stage_signal(kind, a * x)).detach().numpy()
        ctx.check(rel_err(n2, a * n1) < 1e-3, "C07.b_input_scaling", {**cell, "mode": "snr"}, {**case, "a": a}, rel_err(n2, a * n1), "< 1e-3", "noise does not scale with the input in SNR mode", CHK)
    ctx.cls("deterministic_configs_" + kind)
    if len(ctx.samples) < 2:
        ctx.sample({"cell": cell, "shape": list(shape), "signal_power": ps, "relations": ["power 1e-3..250", "snr -20..40 dB", "input x3"]})


def unit_deterministic(ctx, kind):
    for cplx in (False, True):
        for shape in ((4096,), (8, 512), (2, 3, 16, 16)):
            for ps in (1e-3, 0.1, 1.0, 30.0, 1e3):
                check_config(ctx, None, {"kind": kind, "complex": cplx, "shape": list(shape), "signal_power": ps, "seed": ctx.seed})
        # signals with a DC component (power != variance)
        for fam in ("dc_offset", "constant", "unipolar"):
            for shape, ps in (((4096,), 1.0), ((8, 512), 0.1), ((2, 3, 16, 16), 30.0)):
                check_config(ctx, {"channel": kind, "dtype": "complex" if cplx else "real", "signal": fam},
                             {"kind": kind, "complex": cplx, "shape": list(shape), "signal_power": ps, "seed": ctx.seed, "family": fam})


def unit_reuse(ctx):
    """one channel object, several calls (complex, complex, real, complex): every call delivers the configured power; the parameter
    may be a float or a 0-dim tensor (the channels accept both) and a caller's tensor is not modified."""
    import torch
    import kaira.channels as C
    rng = np.random.RandomState(ctx.seed + 21)
    for kind in ("awgn", "laplacian", "nonlinear_id", "fading_stage"):
        for mode, value in (("power", 0.3), ("snr", 6.0)):
            for as_tensor in (False, True):
                param = torch.tensor(value) if as_tensor else value
                kw = {"avg_noise_power": param} if mode == "power" else {"snr_db": param}
                cell = {"channel": kind, "mode": mode, "param": "tensor" if as_tensor else "float", "clause_group": "reuse"}
                case = {"kind": kind, "mode": mode, "value": value, "tensor_param": as_tensor}
                try:
                    if kind == "awgn":
                        ch = C.AWGNChannel(**kw)
                    elif kind == "laplacian":
                        ch = C.LaplacianChannel(**kw)
                    elif kind == "nonlinear_id":
                        ch = C.NonlinearChannel(lambda t: t, add_noise=True, **kw)
                    else:
                        ch = C.FlatFadingChannel("rayleigh", coherence_time=1, **kw)
                except Exception as e:  # noqa: BLE001
                    ctx.cls("reuse_constructor_rejects_" + ("tensor" if as_tensor else "float"))
                    continue
                ref = []
                ok_all = True
                for call_no, cplx in enumerate((True, True, False, True)):
                    x = gen_signal((20000,), 1.0, cplx, rng)
                    torch.manual_seed(500 + call_no)
                    try:
                        y = ch(x, csi=torch.ones(1, dtype=torch.complex64)) if kind == "fading_stage" else ch(x)
                    except Exception as e:  # noqa: BLE001
                        if as_tensor:
                            ctx.cls("reuse_tensor_param_rejected_at_call")
                        else:
                            ctx.ev()
                            ctx.fail("C07.raises", cell, {**case, "call": call_no}, f"{type(e).__name__}: {str(e)[:120]}", "no exception", checker="c07:replay_reuse")
                        ok_all = False
                        break
                    s_ = stage_signal(kind, x)
                    n = (y - s_).detach().numpy()
                    P = value if mode == "power" else p64(s_) / 10 ** (value / 10)
                    pwr = float(np.mean(np.abs(n) ** 2))
                    vf = 5.0 if kind == "laplacian" else 2.0
                    ctx.ev()
                    ctx.nontrivial(cell, call_no)
                    ctx.check(abs(pwr / P - 1) <= Z * np.sqrt(vf / n.size) + 1e-3, "C07.f_noise_power_every_call", cell, {**case, "call": call_no}, {"measured": pwr, "ratio": pwr / P}, {"configured": P},
                              "a later call on the same channel object does not add the configured noise power", "c07:replay_reuse")
                if ok_all and not as_tensor:
                    # the parameter is a public attribute (the examples retune live channels through it): after an update the NEXT call follows it
                    new_value = value * 4.0 if mode == "power" else value + 6.0
                    setattr(ch, "avg_noise_power" if mode == "power" else "snr_db", new_value)
                    x = gen_signal((20000,), 1.0, True, rng)
                    torch.manual_seed(777)
                    ok, y = ctx.call(lambda: ch(x, csi=torch.ones(1, dtype=torch.complex64)) if kind == "fading_stage" else ch(x), "C07.raises", cell, {**case, "call": "after_update"}, checker="c07:replay_reuse")
                    if ok:
                        s_ = stage_signal(kind, x)
                        n = (y - s_).detach().numpy()
                        P = new_value if mode == "power" else p64(s_) / 10 ** (new_value / 10)
                        pwr = float(np.mean(np.abs(n) ** 2))
                        vf = 5.0 if kind == "laplacian" else 2.0
                        ctx.ev()
                        ctx.check(abs(pwr / P - 1) <= Z * np.sqrt(vf / n.size) + 1e-3, "C07.f_noise_power_after_update", cell, {**case, "call": "after_update"}, {"measured": pwr, "ratio": pwr / P}, {"configured": P},
                                  "after the channel's noise parameter was updated the next call does not add the newly configured noise power", "c07:replay_reuse")
                if as_tensor and ok_all:
                    ctx.check(abs(float(param) - value) < 1e-6 * abs(value), "C07.param_unmodified", cell, case, float(param), value, "the caller's parameter tensor was modified by the channel", "c07:replay_reuse")
    ctx.sample({"reuse": "4 calls per channel object (complex, complex, real, complex); float and 0-dim tensor parameters"})


def replay_reuse(ctx, cell, case):
    unit_reuse(ctx)


def unit_verbatim(ctx):
    """(a) caller-supplied noise is added verbatim."""
    import torch
    import kaira.channels as C
    rng = np.random.RandomState(ctx.seed)
    for cplx in (False, True):
        for shape in ((16,), (4, 9), (2, 3, 4, 5)):
            x = gen_signal(shape, 2.0, cplx, rng)
            n = gen_signal(shape, 0.3, cplx, rng)
            cell = {"channel": "awgn", "dtype": "complex" if cplx else "real", "mode": "supplied_noise"}
            for ch in (C.AWGNChannel(avg_noise_power=5.0), C.AWGNChannel(snr_db=3.0)):
                y = ch(x, noise=n)
                ctx.check(torch.equal(y, x + n), "C07.a_verbatim", cell, {"shape": list(shape), "complex": cplx}, None, "x + noise exactly", "caller-supplied noise is not added verbatim", "c07:replay_verbatim")
                ctx.nontrivial("verb", cplx, shape)
    # noise of another dtype than the signal (complex noise on a real signal, double-precision noise on a single-precision signal):
    # still x + noise, i.e. what torch's type promotion gives - nothing of the supplied noise may be dropped or rounded
    for xc, xd, nc, nd in ((False, "float32", True, "complex64"), (False, "float32", False, "float64"), (True, "complex64", True, "complex128"), (False, "float64", True, "complex64")):
        for shape in ((16,), (4, 9)):
            x = gen_signal(shape, 2.0, xc, rng).to(getattr(torch, xd))
            n = gen_signal(shape, 0.3, nc, rng).to(getattr(torch, nd)) * (1 + 1e-9)
            cell = {"channel": "awgn", "dtype": xd, "noise_dtype": nd, "mode": "supplied_noise"}
            ok, y = ctx.call(lambda: C.AWGNChannel(avg_noise_power=5.0)(x, noise=n), "C07.a_verbatim_raises", cell, {"shape": list(shape), "signal": xd, "noise": nd}, checker="c07:replay_verbatim")
            if ok:
                exp = x + n
                ctx.ev()
                ctx.check(y.dtype == exp.dtype and bool(torch.equal(y, exp)), "C07.a_verbatim", cell, {"shape": list(shape), "signal": xd, "noise": nd}, str(y.dtype), str(exp.dtype),
                          "caller-supplied noise of another dtype is not added verbatim (part of it is dropped or rounded)", "c07:replay_verbatim")
                ctx.nontrivial("verb_mixed", xd, nd, shape)
    ctx.sample({"check": "AWGN(x, noise=n) == x + n bit for bit"})


def replay_verbatim(ctx, cell, case):
    unit_verbatim(ctx)


def unit_conversions(ctx):
    import torch
    from kaira.utils import snr as S
    from kaira.benchmarks.metrics import StandardMetrics
    from kaira.metrics.signal.snr import SignalToNoiseRatio
    cell = {"channel": "conversions"}
    grid = np.linspace(-40, 60, 2001)
    t = torch.from_numpy(grid)
    lin = S.snr_db_to_linear(t).numpy()
    ctx.ev(len(grid))
    ctx.nontrivial("conv", 1)
    ctx.nontrivial("conv", 2)
    ok = np.allclose(lin, 10 ** (grid / 10), rtol=1e-9)
    ctx.check(ok, "C07.c_db_to_linear", cell, {"grid": "-40..60 dB"}, None, "10^(x/10)", checker="c07:replay_conversions")
    back = S.snr_linear_to_db(torch.from_numpy(10 ** (grid / 10))).numpy()
    ctx.check(np.allclose(back, grid, atol=1e-9), "C07.c_linear_to_db", cell, {"grid": "-40..60 dB"}, None, "inverse", checker="c07:replay_conversions")
    for v in (-20.0, -3.0, 0.0, 7.5, 40.0):
        a = float(S.snr_db_to_linear(v))
        ctx.check(abs(a - 10 ** (v / 10)) <= 1e-6 * 10 ** (v / 10), "C07.c_db_to_linear", cell, {"value": v}, a, 10 ** (v / 10), checker="c07:replay_conversions")
        b = float(S.snr_linear_to_db(float(10 ** (v / 10))))
        ctx.check(abs(b - v) <= 1e-4, "C07.c_linear_to_db", cell, {"value": v}, b, v, checker="c07:replay_conversions")
        for P in (1e-3, 1.0, 250.0):
            npw = float(S.snr_to_noise_power(P, v))
            ctx.check(abs(npw * 10 ** (v / 10) - P) <= 1e-5 * P, "C07.c_snr_to_noise_power", cell, {"P": P, "snr_db": v}, npw, P / 10 ** (v / 10), "snr_to_noise_power(P,s).snr_linear != P", "c07:replay_conversions")
            sn = float(S.noise_power_to_snr(float(P), float(npw)))
            ctx.check(abs(sn - v) <= 1e-3, "C07.c_noise_power_to_snr", cell, {"P": P, "snr_db": v}, sn, v, checker="c07:replay_conversions")
    # tensor forms
    Pt = torch.tensor([1e-3, 1.0, 250.0])
    st = torch.tensor([-20.0, 0.0, 40.0])
    npw = S.snr_to_noise_power(Pt, st).numpy().astype(np.float64)
    ctx.check(np.allclose(npw * 10 ** (st.numpy().astype(np.float64) / 10), Pt.numpy(), rtol=1e-5), "C07.c_snr_to_noise_power", cell, {"form": "tensor"}, npw.tolist(), None, checker="c07:replay_conversions")
    # (d) measuring tools agree with 10log10(Px/Pn) in float64
    rng = np.random.RandomState(ctx.seed)
    for cplx in (False, True):
        for ps, pn in ((1.0, 0.1), (1e-2, 1e-2), (300.0, 2.0), (0.5, 5.0)):
            x = gen_signal((5000,), ps, cplx, rng)
            n = gen_signal((5000,), pn, cplx, rng)
            exp = 10 * np.log10(p64(x) / p64(n))
            a = float(S.calculate_snr(x, x + n))
            nn = (x + n) - x
            exp_a = 10 * np.log10(p64(x) / p64(nn))
            ctx.check(abs(a - exp_a) <= 2e-3, "C07.d_calculate_snr", cell, {"complex": cplx, "ps": ps, "pn": pn}, a, exp_a, "calculate_snr differs from 10log10(Px/Pn)", "c07:replay_conversions")
            b = float(SignalToNoiseRatio()(x, x + n))
            ctx.check(abs(b - exp_a) <= 2e-3 + 10 * np.log10(1 + 1.2e-7 / p64(nn)), "C07.d_snr_metric", cell, {"complex": cplx, "ps": ps, "pn": pn}, b, exp_a, "SignalToNoiseRatio differs from 10log10(Px/Pn)", "c07:replay_conversions")
            c = float(StandardMetrics.signal_to_noise_ratio(x, n))
            ctx.check(abs(c - exp) <= 2e-3, "C07.d_helper_snr", cell, {"complex": cplx, "ps": ps, "pn": pn}, c, exp, "StandardMetrics.signal_to_noise_ratio differs from 10log10(Px/Pn)", "c07:replay_conversions")
            ctx.nontrivial("tools", cplx, ps, pn)
    # batched inputs (B, ...): the metric returns one SNR per batch element; elements (and rows inside an element) get different powers,
    # so that an element's value cannot be right by averaging over the wrong axes
    for cplx in (False, True):
        for shape in ((4, 600), (3, 4, 250), (2, 3, 8, 16), (5, 1, 300)):
            x = gen_signal(shape, 1.0, cplx, rng).numpy()
            n = gen_signal(shape, 1.0, cplx, rng).numpy()
            B = shape[0]
            gx = 10.0 ** rng.uniform(-1.5, 1.5, size=(B,) + (1,) * (len(shape) - 1))
            gn = 10.0 ** rng.uniform(-1.5, 1.5, size=(B,) + (1,) * (len(shape) - 1))
            rowg = 10.0 ** rng.uniform(-1, 1, size=(1, shape[1]) + (1,) * (len(shape) - 2)) if len(shape) > 2 else 1.0
            x = (x * gx * rowg).astype(x.dtype)
            n = (n * gn).astype(n.dtype)
            xt, nt = torch.from_numpy(x), torch.from_numpy(n)
            yt = xt + nt
            nn = (yt - xt).numpy()
            exp = np.array([10 * np.log10(np.mean(np.abs(x[i].astype(np.complex128)) ** 2) / np.mean(np.abs(nn[i].astype(np.complex128)) ** 2)) for i in range(B)])
            bcell = {**cell, "layout": f"{len(shape)}d_batched"}
            ok, got = ctx.call(lambda: SignalToNoiseRatio()(xt, yt).numpy().astype(np.float64).reshape(-1), "C07.d_snr_metric_raises", bcell, {"complex": cplx, "shape": list(shape)}, checker="c07:replay_conversions")
            if ok:
                ctx.ev()
                ctx.check(got.shape == exp.shape and bool(np.all(np.abs(got - exp) <= 5e-3)), "C07.d_snr_metric", bcell, {"complex": cplx, "shape": list(shape)}, got.tolist(), exp.tolist(),
                          "SignalToNoiseRatio on a batched input is not 10log10(Px/Pn) of each batch element", "c07:replay_conversions")
                ctx.nontrivial("tools_batched", cplx, shape)
    # add_noise_for_snr with its 'dim' argument: the noise of every slice is calibrated to THAT slice's power (same-seed relation,
    # deterministic): noise == randn(seed) * sqrt(P_slice / 10^(snr/10)); rows and columns get different powers
    for cplx in (False, True):
        base = gen_signal((6, 50), 1.0, cplx, rng)
        g = torch.from_numpy((10.0 ** rng.uniform(-1.5, 1.5, size=(6, 1)) * 10.0 ** rng.uniform(-1.0, 1.0, size=(1, 50))).astype(np.float32))
        sig = base * g
        for dim in (None, 0, 1, -1, (0,), (1,), (0, 1)):
            for snr in (-20.0, 0.0, 13.0, 40.0):
                dcell = {**cell, "tool": "add_noise_for_snr", "dim": str(dim)}
                dcase = {"complex": cplx, "dim": dim if not isinstance(dim, tuple) else list(dim), "snr_db": snr}
                torch.manual_seed(4321)
                ok, res = ctx.call(lambda: S.add_noise_for_snr(sig, snr, dim=dim), "C07.e_add_noise_raises", dcell, dcase, checker="c07:replay_conversions")
                if not ok:
                    continue
                noisy, nz = res
                P = (sig.abs() ** 2).to(torch.float64).mean(dim=dim, keepdim=True) if dim is not None else (sig.abs() ** 2).to(torch.float64).mean().reshape(1, 1)
                std = torch.sqrt(P / 10 ** (snr / 10)).to(torch.float32)
                torch.manual_seed(4321)
                if cplx:
                    exp = torch.complex(torch.randn_like(sig.real) * (std / np.sqrt(2.0)), torch.randn_like(sig.imag) * (std / np.sqrt(2.0)))
                else:
                    exp = torch.randn_like(sig) * std
                ctx.ev()
                e = float((nz - exp).abs().max() / exp.abs().max())
                ctx.check(e <= 1e-4 and bool(torch.equal(noisy, sig + nz)), "C07.e_add_noise_for_snr_dim", dcell, dcase, {"rel_err": e}, "noise = randn x sqrt(P_slice / snr)",
                          "add_noise_for_snr does not calibrate the noise to the power of each slice selected by 'dim'", "c07:replay_conversions")
                ctx.nontrivial("add_noise_dim", cplx, str(dim), snr)
    ctx.sample({"grid_points": 2001, "tools": ["calculate_snr", "SignalToNoiseRatio", "StandardMetrics.signal_to_noise_ratio"]})


def replay_conversions(ctx, cell, case):
    unit_conversions(ctx)


def var_factor(kind, cplx):
    lap = kind == "laplacian"
    if cplx:
        return 2.5 if lap else 1.0
    return 5.0 if lap else 2.0


def check_stat(ctx, cell, case):
    import torch
    from kaira.utils import snr as S
    from kaira.metrics.signal.snr import SignalToNoiseRatio
    kind, mode, value, cplx, ps, N = case["kind"], case["mode"], case["value"], case["complex"], case["signal_power"], case["N"]
    cell = cell or {"channel": kind, "dtype": "complex" if cplx else "real", "mode": mode}
    rng = np.random.RandomState(case.get("seed", ctx.seed))
    eff_cplx = cplx or kind == "fading_stage"
    x = gen_signal((N,), ps, cplx, rng)
    torch.manual_seed(case.get("seed", ctx.seed) + 99)
    if kind == "add_noise_for_snr":
        noisy, nz = S.add_noise_for_snr(x, value)
        ctx.check(torch.allclose(noisy, x + nz), "C07.h_add_noise_tuple", cell, case, None, "(x+n, n)", checker=CHK + "_stat")
        s = x
        y = noisy
    else:
        s = stage_signal(kind, x)
        y = run(kind, mode, value, x, case.get("seed", ctx.seed) + 99)
    n = (y - s).detach().numpy()
    n = n.astype(np.complex128 if np.iscomplexobj(n) else np.float64)
    Ps = p64(s)
    P = value if mode == "power" else Ps / 10 ** (value / 10)
    ctx.ev(N)
    ctx.nontrivial(cell, value, ps)
    m = n.mean()
    tol_m = Z * np.sqrt(P / N)
    ctx.check(abs(m) <= tol_m, "C07.e_zero_mean", cell, case, [float(np.real(m)), float(np.imag(m))], tol_m, "added noise is not zero-mean", "c07:check_stat")
    pw = float(np.mean(np.abs(n) ** 2))
    vf = var_factor("laplacian" if kind == "laplacian" else "g", eff_cplx)
    tol_p = Z * np.sqrt(vf / N) * P + 3e-4 * P + 2e-7 * np.sqrt(Ps * P)
    ctx.check(abs(pw - P) <= tol_p, "C07.f_noise_power", cell, case, {"measured": pw, "ratio": pw / P}, {"configured": P, "tolerance": tol_p},
              "average power of the added noise differs from the configured power (summed over re+im for complex inputs)", "c07:check_stat")
    if eff_cplx:
        pr, pi = float(np.mean(n.real ** 2)), float(np.mean(n.imag ** 2))
        tol_c = Z * np.sqrt((5.0 if kind == "laplacian" else 2.0) / N) * P / 2 + 3e-4 * P + 2e-7 * np.sqrt(Ps * P)
        ctx.check(abs(pr - P / 2) <= tol_c and abs(pi - P / 2) <= tol_c, "C07.f_component_split", cell, case, [pr, pi], P / 2, "complex noise power is not split evenly between real and imaginary parts", "c07:check_stat")
    if kind == "laplacian" and not eff_cplx:
        k4 = float(np.mean(n ** 4) / (np.mean(n ** 2) ** 2))
        ctx.check(abs(k4 - 6.0) <= 0.25, "C07.f_laplace_kurtosis", cell, case, k4, 6.0, "noise of the Laplacian channel does not have Laplacian kurtosis", "c07:check_stat")
    if mode == "snr" and P >= 1e-3:
        target = value
        tol_db = 10 * np.log10(1 + (Z * np.sqrt(vf / N) + 5e-4)) + 10 * np.log10(1 + 1.2e-7 / P) + 2e-3
        a = float(S.calculate_snr(s, y))
        ctx.check(abs(a - target) <= tol_db, "C07.g_measured_snr", {**cell, "tool": "calculate_snr"}, case, a, {"configured_db": target, "tol": tol_db},
                  "measuring the channel output with calculate_snr does not return the configured SNR", "c07:check_stat")
        b = float(SignalToNoiseRatio()(s, y))
        ctx.check(abs(b - target) <= tol_db, "C07.g_measured_snr", {**cell, "tool": "SignalToNoiseRatio"}, case, b, {"configured_db": target, "tol": tol_db},
                  "measuring the channel output with the SNR metric does not return the configured SNR", "c07:check_stat")
    ctx.cls("stat_" + kind)
    if len(ctx.samples) < 1:
        ctx.sample({"cell": cell, "value": value, "signal_power": ps, "N": N, "measured_power": pw, "configured": P})


def unit_stat(ctx, kind, configs, N):
    for mode, value, cplx, ps in configs:
        check_stat(ctx, None, {"kind": kind, "mode": mode, "value": value, "complex": cplx, "signal_power": ps, "N": N, "seed": ctx.seed})


def unit_finite(ctx, chunks, offset=0):
    """Noise samples are finite: 2^24 Laplacian samples per chunk (the inverse-CDF construction has log(0) at a uniform draw of exactly 0,
    which happens about once per 2^24 draws: 8 chunks meet it with probability 1 - e^-8), for the scale, power and SNR parameterisations."""
    import torch
    import kaira.channels as C
    x = torch.ones(2 ** 24)
    for i in range(offset, offset + chunks):
        kw = [{"scale": 0.7}, {"avg_noise_power": 2.0}, {"snr_db": 3.0}][i % 3]
        cell = {"channel": "laplacian", "mode": "finite_samples", "param": list(kw)[0]}
        case = {"chunk": i, "seed": ctx.seed, **kw}
        torch.manual_seed(ctx.seed * 1000 + i)
        ok, y = ctx.call(lambda: C.LaplacianChannel(**kw)(x), "C07.raises", cell, case, checker="c07:replay_finite")
        if not ok:
            continue
        ctx.ev(x.numel())
        n = y - x
        ctx.check(bool(torch.isfinite(n).all()), "C07.g_noise_finite", cell, case, float(n.min()), "finite", "a noise sample is infinite or NaN (the added noise power is then infinite)", "c07:replay_finite")
        ctx.nontrivial("finite", i)
    ctx.sample({"samples_per_chunk": 2 ** 24, "chunks": chunks})


def replay_finite(ctx, cell, case):
    import torch
    import kaira.channels as C
    kw = {k: v for k, v in case.items() if k in ("scale", "avg_noise_power", "snr_db")}
    torch.manual_seed(case["seed"] * 1000 + case["chunk"])
    x = torch.ones(2 ** 24)
    n = C.LaplacianChannel(**kw)(x) - x
    ctx.check(bool(torch.isfinite(n).all()), "C07.g_noise_finite", cell, case, float(n.min()), "finite", "a noise sample is infinite or NaN", "c07:replay_finite")


def units(tier, seed):
    T = tier == "thorough"
    N = 16_000_000 if T else 4_000_000  # 16 workers x ~1 GB (32M samples per unit exhausted memory on a shared machine)
    us = [Unit("verbatim", "c07:unit_verbatim", {}, 1), Unit("conversions", "c07:unit_conversions", {}, 1), Unit("reuse", "c07:unit_reuse", {}, 2)]
    us += [Unit(f"laplacian_finite_{j}", "c07:unit_finite", {"chunks": 12 if T else 3, "offset": 100 * j}, 4) for j in range(3)]
    for kind in ("awgn", "laplacian", "nonlinear_id", "nonlinear_id_cartesian", "nonlinear_id_polar", "nonlinear_cubic", "fading_stage"):
        us.append(Unit(f"deterministic_{kind}", "c07:unit_deterministic", {"kind": kind}, 3))
    cfgs = []
    for cplx in (False, True):
        cfgs += [("power", 1e-2, cplx, 1.0), ("power", 1.0, cplx, 1e-3), ("power", 40.0, cplx, 1e3), ("snr", -20.0, cplx, 1.0), ("snr", 0.0, cplx, 1e-2), ("snr", 10.0, cplx, 30.0), ("snr", 40.0, cplx, 1e3)]
    for kind in ("awgn", "laplacian", "nonlinear_id", "nonlinear_id_cartesian", "nonlinear_id_polar", "nonlinear_cubic", "fading_stage"):
        for i in range(0, len(cfgs), 4 if not T else 2):
            us.append(Unit(f"stat_{kind}_{i}", "c07:unit_stat", {"kind": kind, "configs": cfgs[i:i + (4 if not T else 2)], "N": N}, 8))
    us.append(Unit("stat_add_noise_for_snr", "c07:unit_stat", {"kind": "add_noise_for_snr", "configs": [("snr", -10.0, False, 1.0), ("snr", 15.0, True, 5.0), ("snr", 30.0, False, 1e2)], "N": N}, 6))
    return us
