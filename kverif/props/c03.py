"""C03 — advertised (n, k, d) and structure are the true parameters of the encoder's image."""
from __future__ import annotations

from math import comb

import numpy as np

from .. import catalogue as cat
from ..core import Unit
from ..ref import gf2, poly as RP

PROPERTY = "C03"
RULE = ("cells = structured families of the catalogue x information-set options; the code examined is the row space of encoder(I_k) "
        "(what the encoder actually produces). d_true by codeword enumeration (k<=22; thorough 26) and/or MacWilliams through the dual "
        "(n-k<=22), both when both are small (they must agree). Non-trivial: k>=2 and n-k>=2; distinct = distinct cell.")
ASSUMPTIONS = ["kverif/ref/gf2.py enumeration / MacWilliams (self-checked on Hamming(7,4) and Golay(23,12) weight enumerators)",
               "kverif/ref/poly.py for divisibility, X^n+1 factorisation and the BCH generator polynomial (n, k formulas)",
               "advertised values: minimum_distance (attribute or method), delta, error_correction_capability, code_rate, code_length, code_dimension"]
CHK = "c03:check_spec"


def advertised_distance(enc):
    md = getattr(enc, "minimum_distance", None)
    if md is None:
        return None
    if callable(md):
        md = md()
    try:
        return int(md)
    except Exception:
        return None


def check_spec(ctx, cell, case):
    import torch
    spec = case["spec"]
    cell = dict(cell or cat.cell_of(spec))
    fam = spec["family"]
    if fam in ("cyclic", "cyclic_std"):
        cell["k_gt_12"] = cat.nk_of(spec)[1] > 12
    try:
        enc = cat.build(spec)
    except ValueError as e:
        if fam == "bch" and "Bose" in str(e):
            ctx.cls("bch_delta_rejected")
            return
        raise
    n_ref, k_ref = cat.nk_of(spec)
    n, k = enc.code_length, enc.code_dimension
    ctx.check((n, k) == (n_ref, k_ref), "C03.a_nk", cell, case, [n, k], [n_ref, k_ref], "advertised (n,k) differ from the family formula", CHK)
    ctx.check(abs(enc.code_rate - k / n) < 1e-12, "C03.a_rate", cell, case, enc.code_rate, k / n, checker=CHK)
    ctx.check(enc.redundancy == n - k, "C03.a_redundancy", cell, case, enc.redundancy, n - k, checker=CHK)
    # the code actually produced
    rows_t = enc(torch.eye(k, dtype=torch.float32)).detach().numpy()
    if rows_t.shape != (k, n):
        ctx.ev()
        ctx.fail("C03.a_image_shape", cell, case, list(rows_t.shape), [k, n], checker=CHK)
        return
    rows = gf2.rows_from_matrix(rows_t)
    rk = gf2.rank(rows, n)
    ctx.check(rk == k, "C03.a_dimension", cell, case, rk, k, "image of the encoder has dimension != advertised k", CHK)
    if k >= 2 and n - k >= 2:
        ctx.nontrivial(cell)
    ctx.cls("cells_" + fam)
    max_enum = 26 if ctx.tier == "thorough" else 22
    d_true = None
    if rk <= max_enum or n - rk <= 22:
        d_true = gf2.true_min_distance(rows, n, max_enum=max_enum)
        ctx.cls("d_true_decided")
    else:
        ctx.cls("d_true_undecided_k_and_r_too_large")
        # exact d is out of reach: at least rule out codewords of weight 1 and 2 (a zero column, resp. two equal columns, of a check
        # matrix computed from the encoder's image by the reference null space) whenever the code advertises d >= 3
        adv0 = advertised_distance(enc)
        if adv0 is not None and adv0 >= 3:
            Hn = gf2.null_space(rows, n)
            cols = [sum(((h >> j) & 1) << i for i, h in enumerate(Hn)) for j in range(n)]
            ctx.ev()
            ctx.check(0 not in cols and len(set(cols)) == n, "C03.b_lower_bound", cell, case, {"codeword_of_weight_le_2": True}, {"advertised": int(adv0)},
                      "the code contains a word of weight <= 2 although it advertises a minimum distance >= 3", CHK)
    adv = advertised_distance(enc)
    t_adv = getattr(enc, "error_correction_capability", None)
    delta = getattr(enc, "delta", None)
    if len(ctx.samples) < 3:
        ctx.sample({"cell": cell, "n": n, "k": k, "d_true": d_true, "advertised_min_distance": adv, "delta": delta, "t": t_adv})
    if d_true is not None:
        exact = fam in ("hamming", "golay", "rm", "spc") or (fam in ("cyclic", "cyclic_std") and k <= 12)
        if adv is not None:
            ctx.check(d_true >= adv, "C03.b_lower_bound", cell, case, {"d_true": d_true}, {"advertised": adv}, "true minimum distance is below the advertised one", CHK)
            if exact:
                ctx.check(d_true == adv, "C03.c_exact", cell, case, {"d_true": d_true}, {"advertised": adv}, "advertised exact minimum distance differs from the true one", CHK)
        if delta is not None:
            ctx.check(d_true >= delta, "C03.b_design_distance", cell, case, {"d_true": d_true}, {"delta": delta}, "true minimum distance is below the design distance", CHK)
        if t_adv is not None:
            ctx.check((d_true - 1) // 2 >= t_adv, "C03.b_capability", cell, case, {"d_true": d_true}, {"t": t_adv}, "advertised error-correction capability exceeds floor((d_true-1)/2)", CHK)
        # perfect codes
        if fam in ("hamming", "golay") and not spec.get("extended", False):
            t = (d_true - 1) // 2
            vol = sum(comb(n, i) for i in range(t + 1))
            ctx.check(vol == 2 ** (n - k), "C03.f_perfect", cell, case, {"sphere_volume": vol, "t": t}, 2 ** (n - k), "sphere-packing bound not met with equality", CHK)
    if delta is not None and t_adv is not None:
        ctx.check(t_adv == (delta - 1) // 2, "C03.c_capability_formula", cell, case, t_adv, (delta - 1) // 2, checker=CHK)
    if fam == "golay" and t_adv is not None and adv is not None:
        ctx.check(t_adv == (adv - 1) // 2, "C03.c_capability_formula", cell, case, t_adv, (adv - 1) // 2, checker=CHK)

    # cyclic structure
    if fam in ("cyclic", "cyclic_std", "bch") and spec.get("info") in ("left", "right"):
        red, piv = gf2.rref(rows, n)
        mask = (1 << n) - 1
        bad = None
        for r in rows:
            x = r
            for s in range(1, n):
                x = ((x << 1) & mask) | (x >> (n - 1))
                ctx.ev()
                if not gf2.in_rowspace(x, red, piv):
                    bad = (r, s)
                    break
            if bad:
                break
        if bad:
            ctx.fail("C03.d_cyclic_closure", cell, case, {"row": gf2.int_to_vec(bad[0], n), "shift": bad[1]}, "shifted word in the code", "a cyclic shift of a codeword is not a codeword", CHK)
        g = enc.generator_poly.value
        h = enc.check_poly.value
        xn1 = (1 << n) | 1
        ctx.check(RP.mod(xn1, g) == 0, "C03.e_g_divides", cell, case, bin(g), "divisor of X^n+1", checker=CHK)
        ctx.check(RP.deg(g) == n - k, "C03.e_deg_g", cell, case, RP.deg(g), n - k, checker=CHK)
        ctx.check(RP.mul(g, h) == xn1, "C03.e_gh", cell, case, bin(RP.mul(g, h)), bin(xn1), "g.h != X^n+1", CHK)
        nat = all(RP.mod(r, g) == 0 for r in rows)
        rev = all(RP.mod(int(format(r, f"0{n}b")[::-1], 2) if False else _reverse(r, n), g) == 0 for r in rows)
        ctx.check(nat or rev, "C03.e_multiples", cell, case, {"natural": nat, "reversed": rev}, "all rows multiples of g in one coefficient order", "codewords are not multiples of the generator polynomial", CHK)
        ctx.cls("cyclic_order_natural" if nat else "cyclic_order_reversed" if rev else "cyclic_order_none")
        if fam == "bch":
            gref = cat.bch_generator(spec["mu"], spec["delta"])
            ctx.check(RP.deg(g) == RP.deg(gref), "C03.e_bch_degree", cell, case, RP.deg(g), RP.deg(gref), "BCH generator degree differs from lcm of minimal polynomials", CHK)


def _reverse(r: int, n: int) -> int:
    x = 0
    for j in range(n):
        if (r >> j) & 1:
            x |= 1 << (n - 1 - j)
    return x


def unit_specs(ctx, specs):
    for s in specs:
        for s2 in (cat.expand_bch(s) if s.get("probe") else [s]):
            check_spec(ctx, None, {"spec": s2})


def units(tier, seed):
    T = tier == "thorough"
    specs = cat.structured_specs(tier, seed)
    if not T:
        # the property quantifies over all BCH codes with mu <= 6: the shared quick catalogue stops at mu = 4, C03 is cheap enough for all
        for mu in (5, 6):
            for delta in range(2, 2 ** mu):
                specs.append({"family": "bch", "mu": mu, "delta": delta, "info": "left", "probe": True})

    def w(s):
        n, k = (0, 0)
        f = s["family"]
        if f == "bch":
            return {2: 1, 3: 1, 4: 2, 5: 10, 6: 120}[s["mu"]]
        if f == "rm":
            return {1: 1, 2: 1, 3: 1, 4: 2, 5: 10, 6: 60}[s["m"]]
        if f == "golay":
            return 3
        if f == "hamming":
            return {2: 1, 3: 1, 4: 1, 5: 8, 6: 30}[s["mu"]]
        return 1
    specs.sort(key=lambda s: -w(s))
    nsh = 64 if T else 30
    shards, loads = [[] for _ in range(nsh)], [0.0] * nsh
    for s in specs:
        i = loads.index(min(loads))
        shards[i].append(s)
        loads[i] += w(s)
    return [Unit(f"catalogue_{i:02d}", "c03:unit_specs", {"specs": sh}, loads[i]) for i, sh in enumerate(shards) if sh]
