"""C19 — DeepJSCC pipelines are differentiable end to end and keep their shape contract."""
from __future__ import annotations

import numpy as np

from ..core import Unit

PROPERTY = "C19"
RULE = ("gradient cases: (stage, parameterisation, dtype, shape, input scale) for AWGN, Laplacian, PhaseNoise, FlatFading (Rayleigh/Rician), Nonlinear (cubic; direct/cartesian/"
        "polar), TotalPower, AveragePower, PerAntennaPower, PAPR in float64 under a frozen RNG, seeded inputs generated away from clipping kinks; torch.autograd.gradcheck for "
        "power parameterisations, 8-direction central differences for SNR parameterisations; end-to-end cases: (architecture, image size in {16,32,48,64} admitted by the "
        "stride, batch in {1,2,5}, plus seed-generated rectangular sizes H x W (independent multiples of the stride, mostly not multiples of 16 for the stride-4 architectures) with batch 1..7) for Bourtsoulatze2019, Tung2022 Q and Q2 (csi), Kurka2020, Yilmaz2024 WZ small/full/conditional and Yilmaz2023 NOMA, with shape, range, "
        "bandwidth-ratio and per-parameter gradient checks. Non-trivial: every distinct (stage or architecture, dtype, size) case; gradients are compared at random points.")
ASSUMPTIONS = ["SNR parameterisations route the noise scale through a float32 cast, so they are compared by central differences along 8 unit directions (eps 1e-2, tolerance 5e-3 relative + 2e-3 of the gradient norm) rather than gradcheck",
               "a parameter's gradient is flagged only if it is exactly zero for three independent initialisations and inputs (dead ReLU-type units of one initialisation are not a defect)",
               "reduced widths: Bourtsoulatze F=8, Tung N=16 M=8; Kurka keeps its fixed 256 filters; WZ N=16..32, M=16..32",
               "image sizes are restricted to multiples of the architecture's total stride (4 for Bourtsoulatze/Kurka, 16 for Tung/WZ/NOMA)"]
CHK = "c19:check_grad"


def seeded(fn, seed):
    import torch

    def g(*a):
        torch.manual_seed(seed)
        return fn(*a)
    return g


def stages():
    """name -> (factory(dtype) -> callable, complex_ok, real_ok, mode)"""
    import torch
    import kaira.channels as C
    import kaira.constraints as K
    cub = lambda t: t + 0.1 * t ** 3  # noqa: E731
    cubc = lambda t: t + 0.1 * t * (t.abs() ** 2) if torch.is_complex(t) else t + 0.1 * t ** 3  # noqa: E731
    return {
        "awgn_power": (lambda: C.AWGNChannel(avg_noise_power=0.3), True, True, "gradcheck"),
        "awgn_snr": (lambda: C.AWGNChannel(snr_db=7.0), True, True, "fd"),
        "laplacian_power": (lambda: C.LaplacianChannel(avg_noise_power=0.3), True, True, "gradcheck"),
        "laplacian_scale": (lambda: C.LaplacianChannel(scale=0.4), True, True, "gradcheck"),
        "laplacian_snr": (lambda: C.LaplacianChannel(snr_db=5.0), True, True, "fd"),
        "phase_noise": (lambda: C.PhaseNoiseChannel(phase_noise_std=0.2), True, True, "gradcheck"),
        "rayleigh_power": (lambda: C.RayleighFadingChannel(coherence_time=3, avg_noise_power=0.1), True, True, "gradcheck"),
        "rayleigh_snr": (lambda: C.RayleighFadingChannel(coherence_time=2, snr_db=10.0), True, True, "fd"),
        "rician_power": (lambda: C.RicianFadingChannel(k_factor=3.0, coherence_time=4, avg_noise_power=0.1), True, True, "gradcheck"),
        "nonlinear_cubic": (lambda: C.NonlinearChannel(cub), False, True, "gradcheck"),
        "nonlinear_cubic_direct": (lambda: C.NonlinearChannel(cubc, complex_mode="direct"), True, False, "gradcheck"),
        "nonlinear_cubic_cartesian": (lambda: C.NonlinearChannel(cub, complex_mode="cartesian"), True, False, "gradcheck"),
        "nonlinear_cubic_polar": (lambda: C.NonlinearChannel(cub, complex_mode="polar"), True, False, "gradcheck"),
        "nonlinear_noise_power": (lambda: C.NonlinearChannel(cub, add_noise=True, avg_noise_power=0.2), False, True, "gradcheck"),
        "nonlinear_noise_snr": (lambda: C.NonlinearChannel(cub, add_noise=True, snr_db=8.0), False, True, "fd"),
        "total_power": (lambda: K.TotalPowerConstraint(2.0), True, True, "gradcheck"),
        "average_power": (lambda: K.AveragePowerConstraint(1.5), True, True, "gradcheck"),
        "per_antenna_power": (lambda: K.PerAntennaPowerConstraint(uniform_power=0.7), True, True, "gradcheck"),
        "per_antenna_budget": (lambda: K.PerAntennaPowerConstraint(power_budget=torch.tensor([0.5, 1.0, 2.0])), True, True, "gradcheck"),
        "papr": (lambda: K.PAPRConstraint(max_papr=3.0), True, True, "gradcheck_papr"),
        # tighter and looser limits reach other phases of the iterative clipping
        "papr_1.2": (lambda: K.PAPRConstraint(max_papr=1.2), True, True, "gradcheck_papr"),
        "papr_1.5": (lambda: K.PAPRConstraint(max_papr=1.5), True, True, "gradcheck_papr"),
        "papr_2": (lambda: K.PAPRConstraint(max_papr=2.0), True, True, "gradcheck_papr"),
        "papr_6": (lambda: K.PAPRConstraint(max_papr=6.0), True, True, "gradcheck_papr"),
        "peak_amplitude": (lambda: K.PeakAmplitudeConstraint(1.0), True, True, "gradcheck_peak"),
    }


def gen_input(shape, cplx, scale, rng, mode):
    import torch
    if mode == "gradcheck_peak":
        # magnitudes away from the clipping threshold 1.0
        mag = np.where(rng.rand(*shape) < 0.5, rng.uniform(0.2, 0.9, size=shape), rng.uniform(1.15, 2.0, size=shape))
        if cplx:
            a = mag * np.exp(1j * rng.uniform(0, 2 * np.pi, size=shape))
        else:
            a = mag * np.where(rng.rand(*shape) < 0.5, -1, 1)
    else:
        a = rng.randn(*shape) + (1j * rng.randn(*shape) if cplx else 0)
        a = a * scale
    t = torch.from_numpy(a.astype(np.complex128 if cplx else np.float64))
    return t.requires_grad_(True)


def check_grad(ctx, cell, case):
    import torch
    name, cplx, shape, scale = case["stage"], case["complex"], tuple(case["shape"]), case["scale"]
    fac, c_ok, r_ok, mode = stages()[name]
    cell = cell or {"stage": name, "dtype": "complex" if cplx else "real"}
    rng = np.random.RandomState(case.get("seed", ctx.seed))
    x = gen_input(shape, cplx, scale, rng, mode)
    if case.get("zero_item") and len(shape) >= 2 and shape[0] >= 2:
        # one batch item exactly zero (a black image, a silent user): the constraint's special path for zero signals must not poison the
        # gradients of the batch (only finiteness is asked for: the map is not differentiable AT zero)
        with torch.no_grad():
            x[1] = 0
    mod = fac()
    f = seeded(lambda t: mod(t), 4242 + case.get("seed", ctx.seed))
    ok, y = ctx.call(lambda: f(x), "C19.raises", cell, case, checker=CHK)
    if not ok:
        return
    ctx.nontrivial(cell, shape, scale, case.get("seed"))
    ctx.ev()
    if not ctx.check(bool(y.requires_grad), "C19.d_requires_grad", cell, case, False, True, "stage output is detached from its input", CHK):
        return
    loss = (y.abs() ** 2).sum() if y.is_complex() else (y ** 2).sum()
    okb, gg = ctx.call(lambda: torch.autograd.grad(loss, x, allow_unused=True), "C19.d_backward_raises", cell, case, "backward through the stage raised", CHK)
    if not okb:
        return
    (g,) = gg
    if g is None:
        ctx.fail("C19.d_requires_grad", cell, case, "None gradient", "gradient", "no gradient flows from the stage output to its input", CHK)
        return
    ctx.check(bool(torch.isfinite(torch.view_as_real(g) if g.is_complex() else g).all()), "C19.d_finite", cell, case, None, None, "gradient contains NaN/inf", CHK)
    if case.get("zero_item"):
        ctx.cls("grad_zero_item_cases")
        return
    if mode == "gradcheck_papr":
        # The PAPR map is piecewise smooth (clipping masks and the iteration count are locally constant away from
        # kinks): where clipping is active it is compared by central differences with a kink guard - the numeric
        # derivative must be stable between eps and eps/4, otherwise the direction crosses a kink and is skipped.
        with torch.no_grad():
            p = x.abs() ** 2
            active = float(p.max() / p.mean()) > 0.9 * float(mod.max_papr) * 0.98
        if active:
            ctx.cls("papr_clipping_active_cases")
            for d in range(6):
                v = torch.from_numpy((rng.randn(*shape) + (1j * rng.randn(*shape) if cplx else 0)).astype(np.complex128 if cplx else np.float64))
                v = v / v.abs().pow(2).sum().sqrt()

                def L(t):
                    yy = f(t)
                    return float(((yy.abs() ** 2).sum() if yy.is_complex() else (yy ** 2).sum()))
                n1 = (L(x.detach() + 1e-4 * v) - L(x.detach() - 1e-4 * v)) / 2e-4
                n2 = (L(x.detach() + 2.5e-5 * v) - L(x.detach() - 2.5e-5 * v)) / 5e-5
                if abs(n1 - n2) > 1e-3 * max(abs(n1), abs(n2), 1e-6):
                    ctx.cls("papr_direction_crosses_kink_skipped")
                    continue
                ana = float((g.conj() * v).real.sum()) if cplx else float((g * v).sum())
                ctx.ev()
                ctx.check(abs(n2 - ana) <= 2e-3 * max(abs(n2), abs(ana)) + 1e-6, "C19.a_gradcheck", cell, {**case, "direction": d}, {"numeric": n2, "analytic": ana}, "agree within 2e-3",
                          "analytic gradient of the PAPR constraint does not match finite differences where clipping is active", CHK)
            ctx.cls("grad_" + name)
            return
    if mode.startswith("gradcheck"):
        try:
            ok = torch.autograd.gradcheck(f, (x,), eps=1e-6, atol=1e-5, rtol=1e-3, raise_exception=False, check_undefined_grad=False)
        except Exception as e:  # noqa: BLE001
            ctx.fail("C19.a_gradcheck_raises", cell, case, f"{type(e).__name__}: {str(e)[:160]}", "gradcheck runs", checker=CHK)
            return
        ctx.ev()
        ctx.check(bool(ok), "C19.a_gradcheck", cell, case, False, True, "analytic gradient does not match finite differences for a fixed noise realisation", CHK)
    else:
        # central differences along 8 directions
        eps = 1e-2
        for d in range(8):
            v = torch.from_numpy((rng.randn(*shape) + (1j * rng.randn(*shape) if cplx else 0)).astype(np.complex128 if cplx else np.float64))
            v = v / v.abs().pow(2).sum().sqrt()

            def L(t):
                yy = f(t)
                return float(((yy.abs() ** 2).sum() if yy.is_complex() else (yy ** 2).sum()))
            num = (L(x.detach() + eps * v) - L(x.detach() - eps * v)) / (2 * eps)
            ana = float((g.conj() * v).real.sum()) if cplx else float((g * v).sum())
            ctx.ev()
            gnorm = float(g.abs().pow(2).sum().sqrt())
            ctx.check(abs(num - ana) <= 5e-3 * max(abs(num), abs(ana)) + 2e-3 * gnorm + 1e-6, "C19.b_finite_differences", cell, {**case, "direction": d}, {"numeric": num, "analytic": ana, "grad_norm": gnorm}, "agree within 5e-3 (+2e-3 |grad|)",
                      "analytic gradient does not match central finite differences (SNR parameterisation)", CHK)
    ctx.cls("grad_" + name)


def unit_grads(ctx, names):
    S = stages()
    for name in names:
        fac, c_ok, r_ok, mode = S[name]
        for cplx in ([False] if not c_ok else [True] if not r_ok else [False, True]):
            shapes = [(3, 2, 6)] if name == "per_antenna_power" else [(12,), (3, 8)]
            if name == "per_antenna_budget":
                shapes = [(2, 3, 6), (2, 3, 4, 5), (1, 3, 3, 4)]  # [B, A, T] and [B, A, H, W] latents (H != A, H == A)
            if name.startswith("ray") or name.startswith("ric"):
                shapes = [(10,), (2, 9)]
            extra_seeds = range(5) if ctx.tier == "thorough" else range(1)
            if name.startswith("papr"):
                shapes = [(12,), (3, 8), (24,), (1, 24)]
                extra_seeds = range(6) if ctx.tier == "thorough" else range(2)
            for shape in shapes + ([(2, 3, 4, 5)] if (ctx.tier == "thorough" and name not in ("per_antenna_power", "per_antenna_budget")) else []):
                for scale in (0.3, 1.0, 5.0) if mode != "gradcheck_peak" else (1.0,):
                    for es in extra_seeds:
                        check_grad(ctx, None, {"stage": name, "complex": cplx, "shape": list(shape), "scale": scale, "seed": ctx.seed + 1000 * es})
            if name in ("total_power", "average_power", "per_antenna_power", "per_antenna_budget", "peak_amplitude") or name.startswith("papr"):
                zshape = (3, 2, 6) if name == "per_antenna_power" else (3, 3, 6) if name == "per_antenna_budget" else (3, 8)
                check_grad(ctx, {"stage": name, "dtype": "complex" if cplx else "real", "mode": "zero_item_in_batch"},
                           {"stage": name, "complex": cplx, "shape": list(zshape), "scale": 1.0, "seed": ctx.seed, "zero_item": True})
    ctx.sample({"stages": names, "method": "gradcheck eps=1e-6 / central differences eps=1e-2, RNG re-seeded before every call"})


def unit_grad_scales(ctx):
    """(d) finite gradients at input power 1e-6..1e6 for the power constraints and SNR channels."""
    import torch
    S = stages()
    for name in ("total_power", "average_power", "awgn_snr", "laplacian_snr", "rayleigh_snr"):
        for sc in (1e-3, 1e3):
            rng = np.random.RandomState(ctx.seed)
            x = gen_input((2, 16), False, sc, rng, "x")
            cell = {"stage": name, "dtype": "real", "mode": "extreme_scale"}

            def fwd_bwd():
                y = seeded(lambda t: S[name][0]()(t), 7)(x)
                loss = (y.abs() ** 2).sum()
                return torch.autograd.grad(loss, x)[0]
            ok, g = ctx.call(fwd_bwd, "C19.d_backward_raises", cell, {"stage": name, "scale": sc}, "forward/backward through the stage raised", "c19:replay_scales")
            if not ok:
                continue
            ctx.check(bool(torch.isfinite(g).all()), "C19.d_finite", cell, {"stage": name, "scale": sc}, None, None, "gradient is NaN/inf at extreme input scale", "c19:replay_scales")
            ctx.nontrivial("scale", name, sc)
    ctx.sample({"scales": [1e-3, 1e3]})


def replay_scales(ctx, cell, case):
    unit_grad_scales(ctx)


# ----------------------------------------------------------------------------- end to end

def architectures():
    import torch
    import kaira.channels as C
    import kaira.constraints as K
    from kaira.models.deepjscc import DeepJSCCModel
    from kaira.models.image import bourtsoulatze2019_deepjscc as B
    from kaira.models.image import kurka2020_deepjscc_feedback as KU
    from kaira.models.image import tung2022_deepjscc_q as T
    from kaira.models.image import yilmaz2024_deepjscc_wz as W
    from kaira.utils import calculate_num_filters_factor_image as nf

    def bour():
        F = nf(2, 1 / 6.0)
        enc, dec = B.Bourtsoulatze2019DeepJSCCEncoder(F), B.Bourtsoulatze2019DeepJSCCDecoder(F)
        m = DeepJSCCModel(enc, K.AveragePowerConstraint(1.0), C.AWGNChannel(snr_db=10.0), dec)
        return m, enc, lambda x: m(x), dict(stride=4, filters=F, ratio=1 / 6.0, strided=2, rng=(0.0, 1.0))

    def tungq():
        M = nf(4, 1 / 96.0)
        enc, dec = T.Tung2022DeepJSCCQEncoder(N=16, M=M), T.Tung2022DeepJSCCQDecoder(N=16, M=M)
        m = DeepJSCCModel(enc, K.TotalPowerConstraint(1.0), C.AWGNChannel(avg_noise_power=0.05), dec)
        return m, enc, lambda x: m(x), dict(stride=16, filters=M, ratio=1 / 96.0, strided=4, rng=None)

    def tungq2():
        enc, dec = T.Tung2022DeepJSCCQ2Encoder(N=16, M=8), T.Tung2022DeepJSCCQ2Decoder(N=16, M=8)
        m = DeepJSCCModel(enc, K.AveragePowerConstraint(1.0), C.AWGNChannel(snr_db=12.0), dec)
        # the Q2 (conference) architecture has two strided layers: latent (B, M, H/4, W/4)
        return m, enc, lambda x: m(x, csi=torch.full((x.shape[0], 1), 12.0)), dict(stride=4, filters=8, ratio=8 / 48.0, strided=2, rng=None)

    def kurka():
        enc, dec = KU.DeepJSCCFeedbackEncoder(256), KU.DeepJSCCFeedbackDecoder(3)
        m = DeepJSCCModel(enc, K.AveragePowerConstraint(1.0), C.AWGNChannel(snr_db=10.0), dec)
        return m, enc, lambda x: m(x), dict(stride=4, filters=256, ratio=256 / 48.0, strided=2, rng=(0.0, 1.0))

    def kurka_model():
        # the bundled feedback MODEL (base layer): its own glue between encoder output and decoder input
        m = KU.DeepJSCCFeedbackModel(channel_snr=10.0, conv_depth=16, channel_type="awgn", feedback_snr=None, refinement_layer=False, layer_id=0)
        return m, m.encoder, lambda x: m(x)["decoded_img"], dict(stride=4, filters=None, ratio=None, strided=2, rng=(0.0, 1.0))

    def wz(kind):
        def mk():
            if kind == "small":
                enc = W.Yilmaz2024DeepJSCCWZSmallEncoder(N=16, M=16)
                dec = W.Yilmaz2024DeepJSCCWZSmallDecoder(N=16, M=16, encoder=enc)
            elif kind == "full":
                enc, dec = W.Yilmaz2024DeepJSCCWZEncoder(N=16, M=16), W.Yilmaz2024DeepJSCCWZDecoder(N=16, M=16)
            else:
                enc, dec = W.Yilmaz2024DeepJSCCWZConditionalEncoder(N=16, M=16), W.Yilmaz2024DeepJSCCWZConditionalDecoder(N=16, M=16)
            m = W.Yilmaz2024DeepJSCCWZModel(encoder=enc, channel=C.AWGNChannel(snr_db=10.0), decoder=dec, constraint=K.TotalPowerConstraint(1.0))

            def run(x):
                torch.manual_seed(5)
                side = x + 0.1 * torch.randn_like(x)
                return m(x, side, csi=torch.ones(x.shape[0], 1, 1, 1))
            return m, enc, run, dict(stride=16, filters=16, ratio=None, strided=4, rng=None)
        return mk
    def noma(shared):
        def mk():
            from kaira.models.image import yilmaz2023_deepjscc_noma as NM
            if shared:
                m = NM.Yilmaz2023DeepJSCCNOMAModel(channel=C.AWGNChannel(snr_db=10.0), power_constraint=K.TotalPowerConstraint(1.0), num_devices=2, M=0.5, latent_dim=16,
                                                   encoder=NM.Yilmaz2023DeepJSCCNOMAEncoder(N=16, M=16, in_ch=3), decoder=NM.Yilmaz2023DeepJSCCNOMADecoder(N=16, M=16, num_devices=2, shared_decoder=True),
                                                   shared_encoder=True, shared_decoder=True, use_device_embedding=False)
            else:
                m = NM.Yilmaz2023DeepJSCCNOMAModel(channel=C.AWGNChannel(snr_db=10.0), power_constraint=K.TotalPowerConstraint(1.0), num_devices=2, M=0.5, latent_dim=16,
                                                   use_device_embedding=True, N=16, image_shape=(32, 32))

            def run(x):
                y = m([x, x.flip(0)], csi=torch.full((x.shape[0], 1), 10.0))
                return y[:, 0] + 0 * y[:, 1].flip(0) if y.dim() == 5 else y
            return m, m.encoders, run, dict(stride=16, filters=None, ratio=None, strided=4, rng=None, only_size=32 if not shared else None)
        return mk
    return {"yilmaz2023_noma_embedding": noma(False), "yilmaz2023_noma_shared": noma(True), "bourtsoulatze2019": bour, "tung2022_q": tungq, "tung2022_q2_csi": tungq2, "kurka2020": kurka, "kurka2020_feedback_model": kurka_model, "yilmaz2024_wz_small": wz("small"), "yilmaz2024_wz": wz("full"),
            "yilmaz2024_wz_conditional": wz("cond")}


def check_e2e(ctx, cell, case):
    import torch
    arch, size, batch = case["arch"], case["size"], case["batch"]
    cell = cell or {"arch": arch}
    torch.manual_seed(case.get("seed", ctx.seed))
    ok, built = ctx.call(lambda: architectures()[arch](), "C19.e_construct", cell, case, checker="c19:check_e2e")
    if not ok:
        return
    model, enc, run, meta = built
    H_, W_ = (size, size) if isinstance(size, int) else (int(size[0]), int(size[1]))
    if H_ % meta["stride"] or W_ % meta["stride"] or (meta.get("only_size") and (H_ != meta["only_size"] or W_ != meta["only_size"])):
        return
    zero_count = None
    for trial in range(3):
        if trial:
            # fresh initialisation: a parameter is only flagged when no initialisation and no input gives it a gradient
            torch.manual_seed(case.get("seed", ctx.seed) + 1000 * trial)
            model, enc, run, meta = architectures()[arch]()
        model.train()
        x = torch.rand(batch, 3, H_, W_)
        ok, y = ctx.call(lambda: run(x), "C19.f_forward_raises", cell, case, checker="c19:check_e2e")
        if not ok:
            return
        ctx.ev()
        if trial == 0:
            ctx.nontrivial(cell, size, batch)
            ctx.check(tuple(y.shape) == tuple(x.shape), "C19.f_output_shape", cell, case, list(y.shape), list(x.shape), "reconstruction does not have the input's shape", "c19:check_e2e")
            if meta["rng"] is not None:
                lo, hi = meta["rng"]
                ctx.check(bool(y.min() >= lo - 1e-6 and y.max() <= hi + 1e-6), "C19.f_output_range", cell, case, [float(y.min()), float(y.max())], [lo, hi], "reconstruction leaves the documented value range", "c19:check_e2e")
            # (e) latent shape and bandwidth ratio
            if meta["filters"] is None:
                z = torch.zeros(0)
            with torch.no_grad():
                if meta["filters"] is None:
                    pass
                elif "csi" in arch or "wz" in arch:
                    csi = torch.full((batch, 1), 12.0) if "tung" in arch else torch.ones(batch, 1, 1, 1)
                    z = enc(x, x, csi) if "conditional" in arch else enc(x, csi)
                else:
                    z = enc(x)
            exp_lat = (batch, meta["filters"], H_ // meta["stride"], W_ // meta["stride"])
            if meta["filters"] is not None:
              ctx.check(tuple(z.shape) == exp_lat, "C19.e_latent_shape", cell, case, list(z.shape), list(exp_lat), "latent does not have the documented shape (B, F, H/s, W/s)", "c19:check_e2e")
            if meta["ratio"] is not None:
                r = z[0].numel() / (3 * H_ * W_)
                ctx.check(abs(r - meta["ratio"]) <= 1e-9, "C19.e_bandwidth_ratio", cell, case, r, meta["ratio"], "latent size / image size differs from the bandwidth ratio behind calculate_num_filters_factor_image", "c19:check_e2e")
        if tuple(y.shape) != tuple(x.shape):
            return
        model.zero_grad()
        loss = ((y - x) ** 2).mean()
        loss.backward()
        grads = {n: p.grad for n, p in enc.named_parameters() if p.requires_grad}
        nonfinite = [n for n, g in grads.items() if g is not None and not torch.isfinite(g).all()]
        ctx.check(not nonfinite, "C19.g_finite_parameter_gradients", cell, case, nonfinite[:5], [], "an encoder parameter received a NaN/inf gradient", "c19:check_e2e")
        zero_now = {n for n, g in grads.items() if g is None or float(g.abs().sum()) == 0.0}
        zero_count = zero_now if zero_count is None else (zero_count & zero_now)
    ctx.check(not zero_count, "C19.g_gradient_reaches_parameters", cell, case, sorted(zero_count)[:8], [], "the loss gradient does not reach these encoder parameters through constraint + channel + decoder (zero on three inputs)", "c19:check_e2e")
    ctx.cls("e2e_" + arch)
    if len(ctx.samples) < 2:
        ctx.sample({"arch": arch, "size": size, "batch": batch, "latent": list(z.shape)})


def unit_e2e(ctx, arch, sizes, batches):
    for s in sizes:
        for b in batches:
            check_e2e(ctx, None, {"arch": arch, "size": s, "batch": b, "seed": ctx.seed})
        if s == 16:
            # non-square admissible images (height != width): latents are (H/s, W/s), not (W/s, H/s)
            for hw in ([16, 32], [32, 16]):
                check_e2e(ctx, {"arch": arch, "image": "non_square"}, {"arch": arch, "size": hw, "batch": 2, "seed": ctx.seed})


def unit_e2e_generated(ctx, arch, n):
    """Seed-driven admissible sizes: H and W independent multiples of the architecture's stride (for the stride-4 architectures mostly NOT multiples of 16),
    batch sizes 1..7 - the part of 'every admissible image size and batch size' that the fixed grid {16,32,48,64} x {1,2,5} never visits."""
    stride = 4 if arch in ("bourtsoulatze2019", "kurka2020", "kurka2020_feedback_model") else 16
    rng = np.random.RandomState((ctx.seed * 7919 + sum(map(ord, arch))) % (2 ** 31))
    top = 72 if stride == 4 else 96
    done = set()
    while len(done) < n:
        h, w = (int(stride * rng.randint(2 if stride == 4 else 1, top // stride + 1)) for _ in range(2))
        b = int(rng.randint(1, 8))
        if (h, w) in done or (h == w and h in (16, 32, 48, 64)):
            continue
        done.add((h, w))
        check_e2e(ctx, {"arch": arch, "image": "generated"}, {"arch": arch, "size": [h, w], "batch": b, "seed": ctx.seed})


def units(tier, seed):
    T = tier == "thorough"
    names = list(stages())
    us = []
    for i in range(0, len(names), 2):
        us.append(Unit(f"grad_{i // 2:02d}", "c19:unit_grads", {"names": names[i:i + 2]}, 3))
    us.append(Unit("grad_scales", "c19:unit_grad_scales", {}, 1))
    for arch in ("bourtsoulatze2019", "tung2022_q", "tung2022_q2_csi", "kurka2020", "kurka2020_feedback_model", "yilmaz2024_wz_small", "yilmaz2024_wz", "yilmaz2024_wz_conditional", "yilmaz2023_noma_embedding", "yilmaz2023_noma_shared"):
        stride16 = arch not in ("bourtsoulatze2019", "kurka2020", "kurka2020_feedback_model")
        sizes = [16, 32, 48, 64]
        if arch in ("kurka2020", "kurka2020_feedback_model") and not T:
            sizes = [16, 32]
        for s in sizes:
            us.append(Unit(f"e2e_{arch}_{s}", "c19:unit_e2e", {"arch": arch, "sizes": [s], "batches": [1, 2, 5] if (T or s <= 32) else [1, 2]}, (s / 16) ** 2 * (6 if arch == "kurka2020" else 2)))
        if arch != "yilmaz2023_noma_embedding":  # built for one image_shape
            for j in range(4 if T else 1):
                us.append(Unit(f"e2e_{arch}_gen{j}", "c19:unit_e2e_generated", {"arch": arch, "n": (6 if T else 3) if not arch.startswith("kurka") else 2}, 8))
    return us
