"""C06 — hard decisions pick a nearest point; soft outputs are max-log LLRs (sign, scaling)."""
from __future__ import annotations

import numpy as np

from .. import modcat as mc
from ..core import Unit

PROPERTY = "C06"
RULE = ("per scheme option: received points on a grid over 1.5x the constellation's bounding box (41x41 quick, 121x121 thorough; PSK soft path 15x15/41x41 because "
        "the library loops per sample), points far outside it, midpoints between nearest neighbours +-1e-3, seeded random points; noise variances 1e-3..1e3, scalar and "
        "per-symbol tensors. Non-trivial: y not a constellation point and |D1-D0|>1e-6 for the bit; distinct = (scheme, point, bit).")
ASSUMPTIONS = ["reference tables: the modulator's published (constellation, bit_patterns), shown equal to the mapper-induced table by C14.c; BPSK/OQPSK tables written from their docs",
               "differential schemes are probed on their decision variable: the pair [1, y] gives z = y, which the demodulator normalises to |z|=1 before deciding (documented), so the "
               "reference uses y/|y|; pi/4-QPSK uses the unrotated table at even and the rotated table at odd positions",
               "float32 arithmetic in the library: ties are excluded with an absolute margin of 1e-4 on distances; LLR ratio tolerance 2e-3 relative"]
CHK = "c06:check_case"
TOL = 1e-4


def ref_table(s, mod, pos=0):
    sc = s["scheme"]
    if sc == "bpsk":
        return np.array([1 + 0j, -1 + 0j]), np.array([[0], [1]])
    if sc == "oqpsk":
        a = 1 / np.sqrt(2) if s["normalize"] else 1.0
        return np.array([a + 1j * a, a - 1j * a, -a + 1j * a, -a - 1j * a]), np.array([[0, 0], [0, 1], [1, 0], [1, 1]])
    if sc == "pi4qpsk":
        pts = (mod.qpsk_rotated if pos % 2 else mod.qpsk).numpy().astype(np.complex128)
        return pts, np.rint(mod.bit_patterns.numpy()).astype(int)
    pts, lab = mc.published_table(mod)
    return pts, lab


def points_for(pts, tier, soft_slow, rng):
    g = (15 if soft_slow else 41) if tier == "quick" else (41 if soft_slow else 121)
    re_lo, re_hi = pts.real.min(), pts.real.max()
    im_lo, im_hi = pts.imag.min(), pts.imag.max()
    span = max(re_hi - re_lo, im_hi - im_lo, 1.0)
    cx, cy = (re_lo + re_hi) / 2, (im_lo + im_hi) / 2
    xs = np.linspace(cx - 0.75 * span - 0.1, cx + 0.75 * span + 0.1, g)
    ys = np.linspace(cy - 0.75 * span - 0.1, cy + 0.75 * span + 0.1, g)
    grid = (xs[None, :] + 1j * ys[:, None]).reshape(-1)
    far = np.array([z * span * k for k in (3, 10) for z in np.exp(1j * np.linspace(0.1, 2 * np.pi, 12, endpoint=False))])
    D = np.abs(pts[:, None] - pts[None, :])
    np.fill_diagonal(D, np.inf)
    dmin = D.min()
    mids = []
    for i, j in zip(*np.nonzero(D <= dmin * 1.0001)):
        if i < j:
            m, u = (pts[i] + pts[j]) / 2, (pts[j] - pts[i]) / abs(pts[j] - pts[i])
            mids += [m + 1e-3 * u, m - 1e-3 * u]
    rnd = (rng.randn(60) + 1j * rng.randn(60)) * span * 0.6 + (cx + 1j * cy)
    out = np.concatenate([grid, far, np.array(mids[:80]), rnd, pts + 0.01])
    return out.astype(np.complex64), dmin


_MUTATED = []


def _dem(dem, t, nv):
    """Call the demodulator; record when it modifies the caller's noise-variance tensor."""
    import torch
    if nv is None:
        return dem(t)
    before = nv.clone() if isinstance(nv, torch.Tensor) else None
    out = dem(t, noise_var=nv)
    if before is not None and not torch.equal(before, nv):
        _MUTATED.append((float(before.reshape(-1)[0]), float(nv.reshape(-1)[0])))
    return out


def demod_points(s, dem, Y, noise_var=None):
    """Y: complex64 (N,) -> per-point outputs (N, b)."""
    import torch
    b = mc.bits_per_symbol(s)
    k = mc.kind(s)
    mc.reset(dem)
    if k == "differential":
        seq = np.stack([np.ones_like(Y), Y], axis=1)  # (N,2): reference symbol 1, then y
        t = torch.from_numpy(seq)
        nv = noise_var
        if isinstance(noise_var, np.ndarray):
            nv = torch.from_numpy(noise_var.reshape(-1, 1).astype(np.float32))
        out = _dem(dem, t, nv)
        return out.detach().numpy().reshape(len(Y), b)
    if k == "alternating":
        # position 0 uses the unrotated constellation: put each y at position 0 of its own row
        seq = np.stack([Y, np.ones_like(Y)], axis=1)
        t = torch.from_numpy(seq)
        nv = noise_var
        if isinstance(noise_var, np.ndarray):
            nv = torch.from_numpy(np.stack([noise_var, noise_var], axis=1).astype(np.float32))
        out = _dem(dem, t, nv)
        return out.detach().numpy().reshape(len(Y), 2, b)[:, 0, :]
    t = torch.from_numpy(Y)
    nv = noise_var
    if isinstance(noise_var, np.ndarray):
        nv = torch.from_numpy(noise_var.astype(np.float32))
    out = _dem(dem, t, nv)
    return out.detach().numpy().reshape(len(Y), b)


def demod_rotated(s, dem, Y, noise_var=None):
    """pi/4-QPSK, odd position (rotated constellation)."""
    import torch
    mc.reset(dem)
    seq = np.stack([np.full_like(Y, np.exp(1j * np.pi / 4)), Y], axis=1)
    t = torch.from_numpy(seq)
    out = _dem(dem, t, noise_var)
    return out.detach().numpy().reshape(len(Y), 2, 2)[:, 1, :]


def check_scheme(ctx, s, Y=None, nvs=None):
    rng = np.random.RandomState(ctx.seed + 3)
    mod, dem = mc.build(s)
    b = mc.bits_per_symbol(s)
    positions = (0, 1) if s["scheme"] == "pi4qpsk" else (0,)
    soft_slow = s["scheme"] == "psk"
    for pos in positions:
        cell = {**s, "position": pos} if len(positions) > 1 else dict(s)
        pts, lab = ref_table(s, mod, pos)
        Yc, dmin = points_for(pts, ctx.tier, False, rng)
        if Y is not None:
            Yc = np.asarray(Y, dtype=np.complex64)
        dm = demod_rotated if pos == 1 else demod_points
        # effective decision variable
        Z = Yc.astype(np.complex128)
        if mc.kind(s) == "differential":
            Z = Z / (np.abs(Z) + 1e-9)
        Dall = np.abs(Z[:, None] - pts[None, :].astype(np.complex128)) ** 2
        # ---- (a) hard decision
        ok, hard = ctx.call(lambda: dm(s, dem, Yc), "C06.a_raises", cell, {"scheme": s, "y": [complex(Yc[0])], "position": pos}, checker=CHK)
        if ok:
            hard = np.rint(hard).astype(int)
            dnear = np.sqrt(Dall.min(axis=1))
            ctx.ev(len(Yc))
            labv = lab[None, :, :] == hard[:, None, :]
            match = labv.all(axis=2)  # (N, M) points whose label equals the decision
            allowed = np.sqrt(Dall) <= dnear[:, None] + TOL
            good = (match & allowed).any(axis=1)
            bad = np.nonzero(~good)[0]
            ctx.nontrivial_many(("hard", str(cell)), [hash((round(float(z.real), 5), round(float(z.imag), 5))) & 0xFFFFFFFFFFFF for z in Yc[dnear > 1e-6]])
            if len(bad):
                i = int(bad[0])
                idx = np.nonzero(match[i])[0]
                ctx.fail("C06.a_nearest", cell, {"scheme": s, "y": [complex(Yc[i])], "position": pos},
                         {"label": hard[i].tolist(), "distance_of_labelled_point": float(np.sqrt(Dall[i, idx[0]])) if len(idx) else None},
                         {"min_distance": float(dnear[i]), "nearest_label": lab[int(Dall[i].argmin())].tolist()},
                         "hard decision is not the label of a constellation point at minimum Euclidean distance", CHK)
                ctx.fail_total += len(bad) - 1
        # ---- soft
        Ys = Yc
        if soft_slow:
            Ys, _ = points_for(pts, ctx.tier, True, rng)
            if Y is not None:
                Ys = np.asarray(Y, dtype=np.complex64)
            Zs = Ys.astype(np.complex128)
            Ds = np.abs(Zs[:, None] - pts[None, :].astype(np.complex128)) ** 2
        else:
            Ds = Dall
        D0 = np.stack([np.where(lab[:, j] == 0, Ds, np.inf).min(axis=1) for j in range(b)], axis=1)
        D1 = np.stack([np.where(lab[:, j] == 1, Ds, np.inf).min(axis=1) for j in range(b)], axis=1)
        diff = D1 - D0
        consts = []
        llr_by_nv = {}
        held = []
        for nv in (nvs or (1e-3, 1e-2, 0.1, 1.0, 10.0, 100.0, 1e3)):
            ok, llr = ctx.call(lambda: dm(s, dem, Ys, float(nv)), "C06.b_raises", cell, {"scheme": s, "y": [complex(Ys[0])], "noise_var": nv, "position": pos}, checker=CHK)
            if not ok:
                continue
            held.append((nv, llr, llr.astype(np.float64)))  # llr still shares memory with the tensor the demodulator returned
            llr = llr.astype(np.float64)
            llr_by_nv[nv] = llr
            ctx.ev(llr.size)
            well = np.abs(diff) > max(1e-3, 1e-3 * float(np.abs(diff).max()))
            ratio = np.where(well, llr * nv / np.where(well, diff, 1.0), np.nan)
            r = ratio[well]
            if r.size == 0:
                continue
            c = float(np.median(r))
            consts.append(c)
            if pos == 0:
                ctx.nontrivial_many(("soft", str(cell), nv), [hash((round(float(z.real), 5), round(float(z.imag), 5), j)) & 0xFFFFFFFFFFFF
                                                             for z, w in zip(Ys, well) for j in range(b) if w[j]][:5000])
            # sign: positive LLR <=> bit 0 nearer
            sgn_bad = np.argwhere(well & (np.sign(llr) != np.sign(diff)))
            if len(sgn_bad):
                i, j = sgn_bad[0]
                ctx.fail("C06.c_sign", cell, {"scheme": s, "y": [complex(Ys[i])], "noise_var": nv, "position": pos}, {"llr": float(llr[i, j]), "bit": int(j)},
                         {"D1_minus_D0": float(diff[i, j])}, "LLR sign disagrees with log P(bit=0)/P(bit=1): positive must mean bit 0 is nearer", CHK)
                ctx.fail_total += len(sgn_bad) - 1
            elif c <= 0:
                ctx.fail("C06.c_sign", cell, {"scheme": s, "y": [complex(Ys[0])], "noise_var": nv, "position": pos}, c, "> 0", checker=CHK)
            else:
                dev = np.abs(r - c) > 2e-3 * abs(c) + 1e-5
                # float32 LLRs: tolerate absolute error relative to magnitude of operands
                absok = np.abs(llr[well] * nv - c * diff[well]) <= 2e-3 * c * (np.abs(D0[well]) + np.abs(D1[well])) + 1e-5
                devi = np.nonzero(dev & ~absok)[0]
                if len(devi):
                    ii = np.argwhere(well)[devi[0]]
                    i, j = int(ii[0]), int(ii[1])
                    ctx.fail("C06.b_maxlog", cell, {"scheme": s, "y": [complex(Ys[i])], "noise_var": nv, "position": pos},
                             {"llr": float(llr[i, j]), "llr*nv/(D1-D0)": float(ratio[i, j]), "bit": j}, {"constant": c, "D1_minus_D0": float(diff[i, j])},
                             "LLR is not a fixed positive multiple of (D1-D0)/noise_var", CHK)
                    ctx.fail_total += len(devi) - 1
        # results returned by earlier calls still hold their values after the later calls on the same demodulator object
        stale = [nv_ for nv_, view_, copy_ in held if not np.array_equal(view_.astype(np.float64), copy_)]
        if held:
            ctx.ev()
            ctx.check(not stale, "C06.i_output_not_overwritten", cell, {"scheme": s, "position": pos, "noise_vars": [h_[0] for h_ in held]}, stale, [],
                      "LLRs returned by an earlier call were overwritten by a later call on the same demodulator", CHK)
        if len(consts) >= 2:
            cm = float(np.median(consts))
            ctx.check(all(abs(c - cm) <= 2e-3 * abs(cm) for c in consts), "C06.d_noise_scaling", cell, {"scheme": s, "position": pos}, consts, cm,
                      "LLR x noise_var is not independent of noise_var", CHK)
        del _MUTATED[:]
        # ---- (e) per-symbol noise variance tensor equals per-symbol scalar results
        if pos == 0 and mc.kind(s) != "alternating" and len(llr_by_nv) >= 2:
            keys = sorted(llr_by_nv)[:2]
            nvt = np.where(np.arange(len(Ys)) % 2 == 0, keys[0], keys[1]).astype(np.float32)
            ok, llr_t = ctx.call(lambda: dm(s, dem, Ys, nvt), "C06.e_tensor_noise_raises", cell, {"scheme": s, "noise_var": "per-symbol tensor"}, checker=CHK)
            if ok:
                exp = np.where((np.arange(len(Ys)) % 2 == 0)[:, None], llr_by_nv[keys[0]], llr_by_nv[keys[1]])
                ctx.ev(exp.size)
                bad = np.abs(llr_t - exp) > 1e-3 * np.abs(exp) + 1e-4
                if bad.any():
                    i, j = np.argwhere(bad)[0]
                    ctx.fail("C06.e_tensor_noise", cell, {"scheme": s, "y": [complex(Ys[i])], "noise_var": "per-symbol tensor"}, float(llr_t[i, j]), float(exp[i, j]),
                             "per-symbol noise-variance tensor does not give the per-symbol scalar result", CHK)
        # ---- (f) one noise-variance tensor reused over several calls: same LLRs every time, tensor left as the caller made it
        if len(llr_by_nv) >= 1:
            import torch
            key = sorted(llr_by_nv)[len(llr_by_nv) // 2]
            nv0 = torch.tensor(float(key), dtype=torch.float32)
            outs = []
            for _ in range(3):
                ok, o = ctx.call(lambda: dm(s, dem, Ys, nv0), "C06.e_tensor_noise_raises", cell, {"scheme": s, "noise_var": "0-dim tensor", "position": pos}, checker=CHK)
                if ok:
                    outs.append(o.astype(np.float64))
            ctx.ev(3)
            ctx.check(abs(float(nv0) - float(np.float32(key))) == 0 and not _MUTATED, "C06.f_noise_var_unmodified", cell, {"scheme": s, "noise_var": key, "position": pos, "reuse": True},
                      float(nv0), float(key), "the demodulator modified the caller's noise-variance tensor", CHK)
            if len(outs) == 3:
                exp = llr_by_nv[key]
                same = all(np.allclose(o, exp, rtol=1e-3, atol=1e-4) for o in outs)
                ctx.check(same, "C06.f_reuse_same_llr", cell, {"scheme": s, "noise_var": key, "position": pos, "reuse": True},
                          [float(o.reshape(-1)[0]) for o in outs], float(exp.reshape(-1)[0]), "repeated calls with the same 0-dim noise-variance tensor give different LLRs", CHK)
        if len(ctx.samples) < 2:
            ctx.sample({"scheme": s, "position": pos, "n_points": int(len(Yc)), "example_y": [float(Yc[7].real), float(Yc[7].imag)], "constants": consts[:3]})


def check_pi4_1d(ctx, s):
    """pi/4-QPSK has a separate unbatched code path: a 1-D tensor of symbols (positions alternate between the two constellations)."""
    import torch
    rng = np.random.RandomState(ctx.seed + 9)
    mod, dem = mc.build(s)
    cell = {**s, "layout": "1d"}
    tabs = [ref_table(s, mod, 0), ref_table(s, mod, 1)]
    N = 400
    Y = ((rng.randn(N) + 1j * rng.randn(N)) * 1.2).astype(np.complex64)
    pts = np.stack([tabs[i % 2][0] for i in range(N)])
    D = np.abs(Y.astype(np.complex128)[:, None] - pts) ** 2
    lab = tabs[0][1]
    mc.reset(dem)
    ok, idx = ctx.call(lambda: dem(torch.from_numpy(Y)).numpy(), "C06.a_raises", cell, {"scheme": s, "layout": "1d"}, checker="c06:replay_pi4_1d")
    if ok:
        ctx.ev(N)
        dn = np.sqrt(D.min(axis=1))
        good = np.sqrt(D[np.arange(N), np.asarray(idx).astype(int) % 4]) <= dn + TOL if np.asarray(idx).shape == (N,) else np.zeros(N, bool)
        ctx.nontrivial_many(("pi4_1d", str(cell)), range(N))
        ctx.check(bool(np.all(good)), "C06.a_nearest", cell, {"scheme": s, "layout": "1d"}, int((~good).sum()), 0, "unbatched hard decision is not the index of a nearest point of the position's constellation", "c06:replay_pi4_1d")
    D0 = np.stack([np.where(lab[:, j] == 0, D, np.inf).min(axis=1) for j in range(2)], axis=1)
    D1 = np.stack([np.where(lab[:, j] == 1, D, np.inf).min(axis=1) for j in range(2)], axis=1)
    diff = D1 - D0
    for nv in (0.01, 1.0, 100.0):
        mc.reset(dem)
        ok, llr = ctx.call(lambda: dem(torch.from_numpy(Y), noise_var=nv).numpy().reshape(N, 2).astype(np.float64), "C06.b_raises", cell, {"scheme": s, "layout": "1d", "noise_var": nv}, checker="c06:replay_pi4_1d")
        if not ok:
            continue
        well = np.abs(diff) > 1e-3
        ctx.ev(int(well.sum()))
        bad = well & (np.sign(llr) != np.sign(diff))
        ctx.check(not bad.any(), "C06.c_sign", cell, {"scheme": s, "layout": "1d", "noise_var": nv}, int(bad.sum()), 0, "unbatched LLR sign disagrees with log P(bit=0)/P(bit=1)", "c06:replay_pi4_1d")
        r = (llr * nv / np.where(well, diff, 1.0))[well]
        c = float(np.median(r))
        ctx.check(c > 0 and bool(np.all(np.abs(r - c) <= 5e-3 * abs(c) + 1e-4)), "C06.b_maxlog", cell, {"scheme": s, "layout": "1d", "noise_var": nv}, c, "one positive constant", checker="c06:replay_pi4_1d")


def replay_pi4_1d(ctx, cell, case):
    check_pi4_1d(ctx, case["scheme"])


def check_pi4_stream(ctx, cell, case):
    """pi/4-QPSK in its state-carrying (training) mode: a received sequence presented in pieces (3 + 5 + 2 + 4 symbols per row, one reset before
    the first piece) must get the decisions and LLRs it gets when presented in one call - the alternation continues across calls. The one-call
    decisions are what check_scheme verifies against the distance oracle (positions 0 and 1)."""
    import torch
    s = case["scheme"]
    cell = cell or {**s, "mode": "training_stream"}
    rng = np.random.RandomState(case.get("seed", ctx.seed) + 23)
    mod, dem = mc.build(s)
    B, cuts = 3, (0, 3, 8, 10, 14)
    Y = (rng.uniform(-1.4, 1.4, size=(B, cuts[-1])) + 1j * rng.uniform(-1.4, 1.4, size=(B, cuts[-1]))).astype(np.complex64)
    for mode, kw in (("hard", {}), ("soft", {"noise_var": 0.7})):
        for m in (dem, getattr(dem, "modulator", None)):
            if m is not None:
                m.eval()
        mc.reset(dem)
        whole = dem(torch.from_numpy(Y), **kw).detach().numpy().reshape(B, cuts[-1], 2)
        for m in (dem, getattr(dem, "modulator", None)):
            if m is not None:
                m.train()
        mc.reset(dem)
        rcase = {"scheme": s, "mode": mode, "seed": case.get("seed", ctx.seed)}
        ok, parts = ctx.call(lambda: [dem(torch.from_numpy(np.ascontiguousarray(Y[:, a:b])), **kw).detach().numpy().reshape(B, b - a, 2) for a, b in zip(cuts[:-1], cuts[1:])],
                             "C06.a_raises", cell, rcase, checker="c06:check_pi4_stream")
        if not ok:
            continue
        got = np.concatenate(parts, axis=1)
        ctx.ev(got.size)
        same = np.array_equal(got, whole) if mode == "hard" else np.allclose(got, whole, rtol=1e-4, atol=1e-5)
        first = None if same else int(np.argwhere(~np.isclose(got, whole, rtol=1e-4, atol=1e-5))[0][1])
        ctx.check(same, "C06.h_stream", cell, rcase, {"first_differing_symbol": first}, "same as in one call",
                  "in state-carrying mode a sequence presented in pieces is demodulated differently from the same sequence in one call", "c06:check_pi4_stream")
        ctx.nontrivial(cell, mode)
    for m in (dem, getattr(dem, "modulator", None)):
        if m is not None:
            m.eval()
    ctx.cls("pi4_streams")


def check_long(ctx, cell, case):
    """Long inputs (70001 points in one row; 7 x 5003): the decisions and LLRs must be the ones the same points get in pieces of 997 -
    pieces of that size are what check_scheme verifies against the distance oracle. An implementation that works in chunks must not lose a tail."""
    import torch
    s = case["scheme"]
    cell = cell or {**s, "layout": "long"}
    if mc.kind(s) != "memoryless":
        return
    mod, dem = mc.build(s)
    pts, _ = ref_table(s, mod, 0)
    rng = np.random.RandomState(case.get("seed", ctx.seed) + 17)
    R = 1.3 * float(np.abs(pts).max())
    for shape in ((70001,), (7, 5003)):
        N = int(np.prod(shape))
        Y = (rng.uniform(-R, R, size=N) + 1j * (rng.uniform(-R, R, size=N) if np.iscomplexobj(pts) and np.abs(pts.imag).max() > 0 else 0)).astype(np.complex64)
        for mode, kw in (("hard", {}), ("soft", {"noise_var": 0.5})):
            if mode == "soft" and len(shape) == 1 and ctx.tier != "thorough":
                continue
            ok, whole = ctx.call(lambda: dem(torch.from_numpy(Y.reshape(shape)), **kw).detach().numpy().reshape(N, -1), "C06.a_raises", cell, {"scheme": s, "layout": "long", "shape": list(shape), "mode": mode}, checker="c06:check_long")
            if not ok:
                continue
            parts = np.concatenate([dem(torch.from_numpy(Y[i:i + 997]), **kw).detach().numpy().reshape(len(Y[i:i + 997]), -1) for i in range(0, N, 997)])
            ctx.ev(N)
            same = whole.shape == parts.shape and (np.array_equal(whole, parts) if mode == "hard" else np.allclose(whole, parts, rtol=1e-4, atol=1e-5))
            if not same:
                bad = np.nonzero((whole != parts).any(axis=1))[0] if whole.shape == parts.shape else [0]
                ctx.fail("C06.g_long_input", cell, {"scheme": s, "layout": "long", "shape": list(shape), "mode": mode, "seed": case.get("seed", ctx.seed)}, {"first_differing_point": int(bad[0]) if len(bad) else None, "n_differing": int(len(bad))},
                         "same values as in pieces of 997 points", "a long input is demodulated differently from the same points presented in short pieces", "c06:check_long")
            ctx.nontrivial(cell, shape, mode)
    ctx.cls("long_inputs")


def check_case(ctx, cell, case):
    s = case["scheme"]
    y = case.get("y")
    Y = None
    if y:
        Y = [complex(v["re"], v["im"]) if isinstance(v, dict) else complex(v) for v in y]
        Y = Y * 2 if len(Y) == 1 else Y
    nv = case.get("noise_var")
    check_scheme(ctx, s, Y, [nv] if isinstance(nv, (int, float)) else None)


def unit_schemes(ctx, schemes):
    for s in schemes:
        ok, _ = ctx.call(lambda: check_scheme(ctx, s), "C06.scheme_raises", dict(s), {"scheme": s}, checker=CHK)
        ctx.call(lambda: check_long(ctx, None, {"scheme": s}), "C06.scheme_raises", {**s, "layout": "long"}, {"scheme": s, "layout": "long"}, checker="c06:check_long")
        if s["scheme"] == "pi4qpsk":
            ctx.call(lambda: check_pi4_1d(ctx, s), "C06.scheme_raises", {**s, "layout": "1d"}, {"scheme": s, "layout": "1d"}, checker="c06:replay_pi4_1d")
            ctx.call(lambda: check_pi4_stream(ctx, None, {"scheme": s}), "C06.scheme_raises", {**s, "mode": "training_stream"}, {"scheme": s}, checker="c06:check_pi4_stream")


def unit_cross_instance(ctx, family):
    """All options of one family in one process, used interleaved in both orders: soft/hard outputs of one instance must not depend on others."""
    import torch
    schemes = [s for s in mc.all_schemes() if s["scheme"] == family or (family == "dpsk" and s["scheme"] in ("dbpsk", "dqpsk"))]
    if family == "psk":
        schemes = [s for s in schemes if s["order"] <= 16]
    built = [(s, *mc.build(s)) for s in schemes]
    rng = np.random.RandomState(ctx.seed + 33)
    for order_name, seq in (("forward", built), ("reverse", built[::-1])):
        for s, mod, dem in seq:
            cell = {**s, "mode": "cross_instance"}
            pts, lab = ref_table(s, mod, 0)
            b = mc.bits_per_symbol(s)
            span = max(np.abs(pts).max(), 1.0)
            Y = ((rng.randn(60) + 1j * rng.randn(60)) * span * 0.7).astype(np.complex64)
            Z = Y.astype(np.complex128)
            if mc.kind(s) == "differential":
                Z = Z / (np.abs(Z) + 1e-9)
            D = np.abs(Z[:, None] - pts[None, :].astype(np.complex128)) ** 2
            ok, hard = ctx.call(lambda: demod_points(s, dem, Y), "C06.a_raises", cell, {"scheme": s, "mode": "cross_instance"}, checker="c06:replay_cross")
            if ok:
                hard = np.rint(hard).astype(int)
                match = (lab[None, :, :] == hard[:, None, :]).all(axis=2)
                good = (match & (np.sqrt(D) <= np.sqrt(D.min(axis=1))[:, None] + TOL)).any(axis=1)
                ctx.ev(len(Y))
                ctx.nontrivial(cell, order_name)
                ctx.check(bool(good.all()), "C06.a_nearest", cell, {"scheme": s, "mode": "cross_instance", "order": order_name}, int((~good).sum()), 0,
                          "hard decision is not a nearest point when other instances of the family were used before in the same process", "c06:replay_cross")
            D0 = np.stack([np.where(lab[:, j] == 0, D, np.inf).min(axis=1) for j in range(b)], axis=1)
            D1 = np.stack([np.where(lab[:, j] == 1, D, np.inf).min(axis=1) for j in range(b)], axis=1)
            diff = D1 - D0
            ok, llr = ctx.call(lambda: demod_points(s, dem, Y, 0.7), "C06.b_raises", cell, {"scheme": s, "mode": "cross_instance"}, checker="c06:replay_cross")
            if ok:
                well = np.abs(diff) > 1e-3
                bad = well & (np.sign(llr) != np.sign(diff))
                ctx.ev(int(well.sum()))
                ctx.check(not bad.any(), "C06.c_sign", cell, {"scheme": s, "mode": "cross_instance", "order": order_name}, int(bad.sum()), 0,
                          "LLR sign is wrong when other instances of the family were used before in the same process", "c06:replay_cross")
    ctx.sample({"family": family, "instances_in_one_process": len(built)})


def replay_cross(ctx, cell, case):
    unit_cross_instance(ctx, case["scheme"]["scheme"] if case["scheme"]["scheme"] not in ("dbpsk", "dqpsk") else "dpsk")


def units(tier, seed):
    sch = [s for s in mc.all_schemes() if s["scheme"] != "identity"]
    us = []
    for s in sch:
        w = 8 if s["scheme"] == "psk" else (3 if s.get("order", 2) >= 64 else 1)
        us.append(Unit("scheme_" + "_".join(f"{k}{v}" for k, v in s.items()), "c06:unit_schemes", {"schemes": [s]}, w * (1 + s.get("order", 2) / 16)))
    for fam in ("psk", "qam", "pam", "dpsk", "qpsk", "oqpsk"):
        us.append(Unit("cross_instance_" + fam, "c06:unit_cross_instance", {"family": fam}, 3))
    return us
