"""Shared machinery: recording context, unit execution, merging, evidence, known findings.

A property module exposes
    PROPERTY = "Cxx"; RULE = "..."; ASSUMPTIONS = [...]
    units(tier, seed) -> list[Unit]
    (optional) replay(ctx, payload)
Every unit function has the signature fn(ctx, **kwargs) and *records* failures with
ctx.fail(...) instead of raising (collect-then-continue), so one run enumerates all
root causes.  The concrete failing case is the replay file.
"""
from __future__ import annotations

import contextlib
import hashlib
import importlib
import io
import json
import os
import sys
import time
import traceback
from dataclasses import dataclass, field

ROOT = os.path.dirname(os.path.dirname(os.path.abspath(__file__)))
MAX_SAMPLES_PER_UNIT = 3
MAX_FAIL_BUCKETS_PER_UNIT = 400


def canon(obj) -> str:
    return json.dumps(_finite(obj), sort_keys=True, separators=(",", ":"), default=_default)


def _finite(o):
    """non-finite floats are not JSON: write them as the strings "nan" / "inf" / "-inf" (evidence and replay files must stay valid JSON)."""
    if type(o).__module__ == "numpy" and getattr(o, "shape", None) == () and getattr(o, "dtype", None) is not None and o.dtype.kind == "f":
        o = float(o)
    if isinstance(o, float):
        if o != o:
            return "nan"
        if o in (float("inf"), float("-inf")):
            return "inf" if o > 0 else "-inf"
        return o
    if isinstance(o, dict):
        return {k: _finite(v) for k, v in o.items()}
    if isinstance(o, (list, tuple)):
        return [_finite(v) for v in o]
    return o


def _default(o):
    try:
        import numpy as np
        import torch

        if isinstance(o, torch.Tensor):
            o = o.detach().cpu()
            if o.is_complex():
                return {"re": o.real.tolist(), "im": o.imag.tolist()}
            return o.tolist()
        if isinstance(o, np.ndarray):
            if np.iscomplexobj(o):
                return {"re": o.real.tolist(), "im": o.imag.tolist()}
            return o.tolist()
        if isinstance(o, (np.integer,)):
            return int(o)
        if isinstance(o, (np.floating,)):
            return float(o)
        if isinstance(o, (np.bool_,)):
            return bool(o)
    except Exception:  # pragma: no cover
        pass
    if isinstance(o, complex):
        return {"re": o.real, "im": o.imag}
    if isinstance(o, (set, frozenset)):
        return sorted(o)
    if isinstance(o, bytes):
        return o.hex()
    return repr(o)


def jsonable(obj):
    return json.loads(canon(obj))


def h64(*parts) -> int:
    m = hashlib.blake2b(canon(parts).encode(), digest_size=8)
    return int.from_bytes(m.digest(), "big")


@dataclass
class Unit:
    name: str
    fn: str  # "module:function" relative to kverif.props
    kwargs: dict = field(default_factory=dict)
    weight: float = 1.0


class Ctx:
    """Per-unit recorder."""

    def __init__(self, prop: str, unit: str, tier: str, seed: int):
        self.prop, self.unit, self.tier, self.seed = prop, unit, tier, seed
        self.evaluations = 0
        self._nontrivial: set = set()
        self.classes: dict = {}
        self.samples: list = []
        self.failures: dict = {}
        self.fail_total = 0
        self.notes: list = []
        self.exhaustive_parts: dict = {}
        self.budget_hit = False
        self.t0 = time.time()
        self.c0 = time.process_time()

    # --- counting -------------------------------------------------------------
    def ev(self, n: int = 1):
        self.evaluations += int(n)

    def nontrivial(self, *key):
        """Register one distinct non-trivial case (hashed descriptor)."""
        self._nontrivial.add(h64(self.unit, *key))

    def nontrivial_many(self, prefix, ints):
        """Cheap bulk registration: ints are already-distinct integer descriptors."""
        p = h64(self.unit, prefix)
        for i in ints:
            self._nontrivial.add((p ^ (int(i) * 0x9E3779B97F4A7C15)) & 0xFFFFFFFFFFFFFFFF)

    def cls(self, label: str, n: int = 1):
        self.classes[label] = self.classes.get(label, 0) + int(n)

    def sample(self, obj, force: bool = False):
        if force or len(self.samples) < MAX_SAMPLES_PER_UNIT:
            self.samples.append(jsonable(obj))

    def exhaustive(self, part: str, flag: bool = True):
        self.exhaustive_parts[part] = bool(flag)

    def note(self, s: str):
        if len(self.notes) < 20:
            self.notes.append(s)

    def elapsed(self) -> float:
        """CPU seconds this unit has used (not wall-clock: what a unit explores within its budget must not depend on how busy the machine is)."""
        return time.process_time() - self.c0

    # --- failures -------------------------------------------------------------
    def fail(self, clause: str, cell: dict, case, observed=None, expected=None, what: str = "", checker: str = ""):
        """Record a property failure (does not raise).

        clause  : sub-oracle id, e.g. "C01.d"
        cell    : flat descriptor of the configuration (used for known-finding matching)
        case    : concrete input needed to re-run the clause without the generator
        checker : "module:function" able to re-run (ctx, cell, case)
        """
        self.fail_total += 1
        cell = jsonable(cell)
        key = clause + "|" + canon(cell)
        b = self.failures.get(key)
        if b is None:
            if len(self.failures) >= MAX_FAIL_BUCKETS_PER_UNIT:
                return
            b = self.failures[key] = {
                "property": self.prop, "clause": clause, "cell": cell, "case": None,
                "observed": None, "expected": None, "what": what, "checker": checker,
                "unit": self.unit, "count": 0, "seed": self.seed, "tier": self.tier,
            }
            size = None
        else:
            size = len(canon(b["case"]))
        b["count"] += 1
        cj = jsonable(case)
        if size is None or len(canon(cj)) < size:
            b["case"], b["observed"], b["expected"] = cj, jsonable(observed), jsonable(expected)
            if what:
                b["what"] = what

    def check(self, ok: bool, clause: str, cell: dict, case, observed=None, expected=None, what: str = "", checker: str = ""):
        self.ev()
        if not ok:
            self.fail(clause, cell, case, observed, expected, what, checker)
        return ok

    def call(self, fn, clause: str, cell: dict, case, what: str = "", checker: str = ""):
        """Call library code on an input inside its documented domain: an exception is a
        failure of `clause` (recorded, not raised).  Returns (ok, value)."""
        try:
            return True, fn()
        except Exception as e:  # noqa: BLE001
            self.ev()
            self.fail(clause, cell, case, f"{type(e).__name__}: {str(e)[:200]}", "no exception",
                      what or "library raised on an input inside the documented domain", checker)
            return False, None

    def result(self) -> dict:
        return {
            "unit": self.unit, "evaluations": self.evaluations, "nontrivial": len(self._nontrivial),
            "classes": self.classes, "samples": self.samples, "failures": list(self.failures.values()),
            "fail_total": self.fail_total, "notes": self.notes, "exhaustive": self.exhaustive_parts,
            "wall_s": round(self.elapsed(), 3), "budget_hit": self.budget_hit,
        }


@contextlib.contextmanager
def quiet():
    """Swallow library chatter (PolarCodeEncoder / LDPC print on construction)."""
    buf = io.StringIO()
    with contextlib.redirect_stdout(buf):
        yield buf


def resolve(fn: str):
    mod, name = fn.split(":")
    if not mod.startswith("kverif."):
        mod = "kverif.props." + mod
    return getattr(importlib.import_module(mod), name)


def _raised_in_library(e: BaseException) -> bool:
    """True when the traceback passes through the kaira package (and the exception is not one of the harness's own assertions)."""
    tb = e.__traceback__
    hit = False
    while tb is not None:
        fn = tb.tb_frame.f_code.co_filename.replace("\\", "/")
        if "/kaira/" in fn and "/kverif/" not in fn:
            hit = True
        tb = tb.tb_next
    return hit


def replay_unit(ctx, cell, case):
    """Replay of a <ID>.library_raised failure: run the unit again."""
    fn = resolve(case["fn"])
    ctx.tier = case.get("tier", ctx.tier)
    try:
        fn(ctx, **case["kwargs"])
    except Exception as e:  # noqa: BLE001
        if not _raised_in_library(e):
            raise
        ctx.fail(f"{ctx.prop}.library_raised", cell, case, f"{type(e).__name__}: {str(e)[:200]}", "no exception", "the library raised inside this unit on an input the check generates as valid", "kverif.core:replay_unit")


def run_unit(prop: str, unit: Unit, tier: str, seed: int) -> dict:
    """Executed in a worker process."""
    try:
        import torch

        torch.set_num_threads(1)
        torch.manual_seed(seed)
    except Exception:  # pragma: no cover
        pass
    ctx = Ctx(prop, unit.name, tier, seed)
    err = None
    try:
        fn = resolve(unit.fn)
        with quiet():
            fn(ctx, **unit.kwargs)
    except BaseException as e:
        if isinstance(e, Exception) and _raised_in_library(e):
            # Every input the units generate is valid and handled on the reference tree; an exception that comes out of the library's own
            # code is therefore the library's behaviour (a violation: it did not return what the property promises), not a harness fault.
            ctx.fail(f"{prop}.library_raised", {"unit": unit.name}, {"unit": unit.name, "fn": unit.fn, "kwargs": jsonable(unit.kwargs), "tier": tier},
                     f"{type(e).__name__}: {str(e)[:200]}", "no exception", "the library raised inside this unit on an input the check generates as valid", "kverif.core:replay_unit")
            ctx.note("unit aborted by a library exception: the rest of its cases were not explored")
        else:  # harness error, never a violation
            err = traceback.format_exc()
    r = ctx.result()
    r["harness_error"] = err
    return r


# --------------------------------------------------------------------------------------
# known findings
# --------------------------------------------------------------------------------------

def load_known():
    p = os.path.join(ROOT, "known_findings.json")
    if not os.path.exists(p):
        return {"open": [], "fixed": []}
    with open(p) as f:
        return json.load(f)


def _field_match(want, got) -> bool:
    if isinstance(want, list):
        return got in want
    return want == got


def match_known(failure: dict, known: dict):
    for e in known.get("open", []):
        if e.get("property") != failure["property"]:
            continue
        cl = e.get("clause")
        if isinstance(cl, list):
            if failure["clause"] not in cl:
                continue
        elif cl != failure["clause"]:
            continue
        cell = failure["cell"]
        if all(k in cell and _field_match(v, cell[k]) for k, v in e.get("match", {}).items()):
            cells = e.get("cells")
            if cells is not None and canon(cell) not in cells and cell.get("key") not in cells:
                continue
            return e
    return None


def write_replay(failure: dict) -> str:
    d = os.path.join(ROOT, "replays", failure["property"])
    os.makedirs(d, exist_ok=True)
    hid = "%016x" % h64(failure["clause"], failure["cell"], failure["case"])
    path = os.path.join(d, f"{failure['clause'].replace('.', '_')}_{hid}.json")
    with open(path, "w") as f:
        json.dump(failure, f, indent=1, sort_keys=True, default=_default)
    return path
