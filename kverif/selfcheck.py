"""Self-check of the reference models against closed forms (run by setup.sh)."""
import sys


def main():
    from .ref import poly as R
    # GF(2)[X]
    assert R.mul(0b11, 0b11) == 0b101 and R.divmod2(0b101, 0b11) == (0b11, 0)
    assert R.gcd(R.mul(0b111, 0b1011), R.mul(0b111, 0b1101)) == 0b111
    g, s, t = R.xgcd(0b10011, 0b1011)
    assert R.mul(s, 0b10011) ^ R.mul(t, 0b1011) == g == 1
    # number of irreducible polynomials of degree d over GF(2): 2,1,2,3,6,9,18,30
    for d, cnt in zip(range(1, 9), (2, 1, 2, 3, 6, 9, 18, 30)):
        assert sum(R.is_irreducible(f) for f in range(1 << d, 1 << (d + 1))) == cnt, d
    # primitive polynomials: phi(2^d-1)/d : 1,1,2,2,6,6,18,16
    for d, cnt in zip(range(1, 9), (1, 1, 2, 2, 6, 6, 18, 16)):
        assert sum(R.is_primitive(f) for f in range(1 << d, 1 << (d + 1))) == cnt, d
    assert R.is_primitive(0b10011) and not R.is_primitive(0b11111) and R.is_irreducible(0b11111)
    assert R.order_of_x(0b11111) == 5
    # X^7+1 = (X+1)(X^3+X+1)(X^3+X^2+1); X^15+1 has 5 irreducible factors; X^21+1 -> 6
    assert sorted(f for f, _ in R.factor_xn1(7)) == [0b11, 0b1011, 0b1101]
    assert len(R.factor_xn1(15)) == 5 and len(R.factor_xn1(21)) == 6 and len(R.factor_xn1(23)) == 3
    assert R.factor_xn1(6) == [(0b11, 2), (0b111, 2)] or sorted(R.factor_xn1(6)) == [(0b11, 2), (0b111, 2)]
    assert len(R.divisors_xn1(7)) == 6
    # minimal polynomial of alpha in GF(16) is the modulus; of alpha^5 is x^2+x+1
    assert R.minimal_polynomial_of(2, 0b10011) == 0b10011
    assert R.minimal_polynomial_of(R.powmod(2, 5, 0b10011), 0b10011) == 0b111
    for name in ("gf2", "codes", "soft", "mod"):
        try:
            m = __import__("kverif.ref." + name, fromlist=["selfcheck"])
        except ImportError:
            continue
        if hasattr(m, "selfcheck"):
            m.selfcheck()
    print("reference models self-check ok")


if __name__ == "__main__":
    try:
        main()
    except Exception:
        import traceback
        traceback.print_exc()
        sys.exit(2)
